#!/bin/bash
# Runs the registered thorough command of every property (log: out/thorough.log).
mkdir -p /verif/out; : > /verif/out/thorough.log
for p in $(python3 -c "import json;print(' '.join(c['property_id'] for c in json.load(open('/verif/MANIFEST.json'))['checks']))"); do
  s=$(date +%s)
  out=$(timeout 7200 /verif/tools/thorough.sh $p 2>&1); rc=$?
  echo "$p exit=$rc $(( $(date +%s)-s ))s :: $(echo "$out" | grep "obligations discharged" | tail -1 | cut -c1-120)" >> /verif/out/thorough.log
  echo "$out" | grep -E "VIOLATION|failed|TOOL ERROR|SELFTEST-MISS" | cut -c1-220 >> /verif/out/thorough.log
done
echo THOROUGHDONE >> /verif/out/thorough.log
