#!/bin/bash
# usage: tools/try_mutant.sh <seeded-id> <property> [<property>...]
# Applies /verif/seeded/<id>/patch.diff to /repo (which must be clean), runs the
# quick check of each property, and restores /repo.  Refuses to run on a dirty tree
# (git checkout would destroy uncommitted contract edits).
set -u
id=$1; shift
if [ -n "$(git -C /repo status --porcelain)" ]; then echo "REFUSING: /repo has uncommitted changes; commit them first" >&2; exit 3; fi
git -C /repo apply /verif/seeded/$id/patch.diff || exit 3
trap 'git -C /repo checkout -- . ; git -C /repo clean -fdq' EXIT
for p in "$@"; do
  out=$(/verif/bin/govc check -property $p 2>&1); rc=$?
  echo "== mutant $id vs $p: exit $rc"
  echo "$out" | grep -E "VIOLATION|obligation .* failed|TOOL ERROR" | head -${MAXL:-8}
  echo "$out" | tail -1
done
