#!/bin/bash
# usage: tools/try_mutant.sh <seeded-id> <property> [<property>...]
# Applies /verif/seeded/<id>/patch.diff to /repo (which must be clean), runs the
# quick check of each property, and restores /repo.  Refuses to run on a dirty tree
# (git checkout would destroy uncommitted contract edits).
set -u
# evidence files describe the UNCHANGED tree: keep them out of mutant runs
rm -rf /verif/out/evidence.keep; cp -r /verif/evidence /verif/out/evidence.keep
restore_evidence() { rm -rf /verif/evidence; cp -r /verif/out/evidence.keep /verif/evidence; }
id=$1; shift
if [ -n "$(git -C /repo status --porcelain)" ]; then echo "REFUSING: /repo has uncommitted changes; commit them first" >&2; exit 3; fi
git -C /repo apply /verif/seeded/$id/patch.diff || exit 3
trap 'git -C /repo checkout -- . ; git -C /repo clean -fdq; restore_evidence' EXIT
for p in "$@"; do
  out=$(/verif/bin/govc check -property $p 2>&1); rc=$?
  echo "== mutant $id vs $p: exit $rc"
  echo "$out" | grep -E "VIOLATION|obligation .* failed|TOOL ERROR" | head -${MAXL:-8}
  echo "$out" | tail -1
done
