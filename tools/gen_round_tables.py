#!/usr/bin/env python3
"""Prints the DESIGN 11.7 tables for the third (-D of the second property set) and fourth (-E) round of
seeded changes from out/mutants.tsv (last sweep) and seeded/<id>/meta.json."""
import json,csv,sys
first={
'C02-D':'as is','C08-D':'as is','C14-D':'as is','C19-D':'as is','C20-D':'as is',
'C04-D':'reported only by the check of C11 at first (compactFilter/reset did not serve C04); they now serve both',
'C06-D':'reported only under C04 at first (clause `mac_bound_to_hour` was attributed to C04 alone); now attributed to both',
'C07-D':'MISSED at first; `assert_at` on the tweak argument of ScalarBaseMult added (`tweak_is_the_whole_digest_byte`)',
'C10-D':'MISSED at first; ghost `lastReadFailed` and clause `read_error_is_never_masked_by_a_retry_request` added',
'C12-D':'MISSED at first (floating point is uninterpreted); structural clause `weights_normalised_by_their_sum` over the uninterpreted float operations added (FSUM)',
'C01-E':'as is','C03-E':'as is (new call without a contract cannot be framed)','C06-E':'as is','C09-E':'as is','C10-E':'as is','C13-E':'as is','C17-E':'as is',
'C05-E':'TOOL ERROR at first (the function a contract was written for was renamed); a missing contract target is now a failed obligation and the functional clauses are reported too',
'C15-E':'MISSED at first (`serialize` was an assumed contract); its body is now under contract: every successful checkpoint rewrites the store file',
'C16-E':'MISSED at first ("polling stops after Close" was listed as undecided); ghost counter `polled(ch)` and clause `close_channel_is_polled_before_every_request` added',
}
rows={}
for r in csv.reader(open('/verif/out/mutants.tsv'),delimiter='\t'):
    if len(r)<4: continue
    mid,prop,rc,fails=r[:4]
    if rc=='1' and mid not in rows: rows[mid]=(prop,fails.split(';')[0].replace(' failed','').strip())
for suffix,title in (('-D','third'),('-E','fourth')):
    print('| seeded change | what it does (short) | caught by | first failed obligation | on first contact |')
    print('|---|---|---|---|---|')
    for mid in sorted(first):
        if not mid.endswith(suffix): continue
        if suffix=='-D' and mid[:3] in ('C01','C03','C05','C09','C11','C13','C15','C16','C17','C18'): continue
        m=json.load(open('/verif/seeded/%s/meta.json'%mid))
        s=m.get('summary','').replace('|','/').replace('\n',' ')[:120]
        prop,ob=rows.get(mid,('NOT REPORTED',''))
        print('| %s | %s | %s | `%s` | %s |'%(mid,s,prop,ob,first[mid]))
    print()
