#!/bin/bash
# Robustness run: every registered quick check under several solver seeds (log: out/seeds.log).
# A proof that holds under one seed only is a false alarm waiting to happen.
mkdir -p /verif/out; : > /verif/out/seeds.log
rm -rf /verif/out/evidence.keep; cp -r /verif/evidence /verif/out/evidence.keep
for sd in ${@:-0 1 2 3}; do
  for p in $(python3 -c "import json;print(' '.join(c['property_id'] for c in json.load(open('/verif/MANIFEST.json'))['checks']))"); do
    s=$(date +%s)
    out=$(VERIF_SEED=$sd timeout 1500 /verif/bin/govc check -property $p -tier quick 2>&1); rc=$?
    echo "seed=$sd $p exit=$rc $(( $(date +%s)-s ))s" >> /verif/out/seeds.log
    echo "$out" | grep -E "obligation .* failed|TOOL ERROR" | cut -c1-200 >> /verif/out/seeds.log
  done
done
rm -rf /verif/evidence; cp -r /verif/out/evidence.keep /verif/evidence
echo SEEDSDONE >> /verif/out/seeds.log
