#!/bin/bash
# Runs the quick check of every property registered in MANIFEST.json, one after the other.
# usage: tools/run_all.sh [tier]   (log: /verif/out/regress.log)
tier=${1:-quick}
mkdir -p /verif/out
: > /verif/out/regress.log
for p in $(python3 -c "import json;print(' '.join(c['property_id'] for c in json.load(open('/verif/MANIFEST.json'))['checks']))"); do
  s=$(date +%s)
  out=$(timeout 1500 /verif/bin/govc check -property $p -tier $tier 2>&1); rc=$?
  echo "$p exit=$rc $(( $(date +%s)-s ))s :: $(echo "$out" | tail -1)" >> /verif/out/regress.log
  echo "$out" | grep -E "VIOLATION|failed|TOOL ERROR" >> /verif/out/regress.log
done
echo ALLDONE >> /verif/out/regress.log
