#!/bin/bash
# Applies every seeded change in /verif/seeded to /repo (which must be clean), runs the quick check of
# its own property and, if that does not report it, of the related properties; restores /repo after
# each one.  Result table: /verif/out/mutants.tsv  (mutant, property, exit code, failed obligations)
set -u
# evidence files describe the UNCHANGED tree: keep them out of mutant runs
rm -rf /verif/out/evidence.keep; cp -r /verif/evidence /verif/out/evidence.keep
restore_evidence() { rm -rf /verif/evidence; cp -r /verif/out/evidence.keep /verif/evidence; }
if [ -n "$(git -C /repo status --porcelain)" ]; then echo "REFUSING: /repo is dirty" >&2; exit 3; fi
declare -A REL=( [C01]="C05 C09 C10" [C02]="C08 C06" [C03]="C10" [C04]="C11 C06" [C05]="C01 C06" [C06]="C05 C10 C02" [C07]="C10" [C08]="C02" [C09]="C10 C01" [C10]="C06 C09" [C11]="C04" [C12]="C09 C10" [C13]="C10" [C14]="C10" [C15]="C10" [C16]="C10" [C17]="C10" [C18]="C10" [C19]="C10" [C20]="" )
claimed=" $(python3 -c "import json;print(' '.join(c['property_id'] for c in json.load(open('/verif/MANIFEST.json'))['checks']))") "
out=/verif/out/mutants.tsv
mkdir -p /verif/out; : > $out
only=${1:-}
for d in /verif/seeded/*/; do
  id=$(basename $d); p=${id%-*}
  if [ -n "$only" ] && [[ "$id" != $only* ]]; then continue; fi
  if ! git -C /repo apply --check $d/patch.diff 2>/dev/null; then echo -e "$id\t-\tNOAPPLY\t" >> $out; continue; fi
  git -C /repo apply $d/patch.diff
  caught=0
  for q in $p ${REL[$p]}; do
    case "$claimed" in *" $q "*) ;; *) echo -e "$id\t$q\tUNCLAIMED\t" >> $out; continue;; esac
    o=$(timeout 1500 /verif/bin/govc check -property $q -tier quick 2>&1); rc=$?
    fails=$(echo "$o" | grep -oE "obligation [^ ]+ failed \([a-z]+\)" | sed 's/obligation //' | head -4 | tr '\n' ';')
    echo -e "$id\t$q\t$rc\t$fails" >> $out
    if [ $rc -eq 1 ]; then caught=1; break; fi
  done
  git -C /repo checkout -- . ; git -C /repo clean -fdq
done
restore_evidence
echo SWEEPDONE >> $out
