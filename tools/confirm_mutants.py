#!/usr/bin/env python3
"""Confirm seeded mutants delivered by sub-agents (staged under /root/scratch/mutants)
in a scratch worktree and, when confirmed, store them as /verif/seeded/<id>/.
Confirmation = patch applies; module builds; the 39-test suite passes with the
patch; the demonstration fails with the patch and passes without it."""
import os,re,json,glob,subprocess,shutil,sys
ENV=dict(os.environ,GOFLAGS='-mod=mod',GOPROXY='off',GOSUMDB='off',GOTOOLCHAIN='local')
STAGE=os.environ.get('MUT_STAGE','/root/scratch/mutants'); WT='/root/scratch/wt-confirm'; OUT='/verif/seeded'
def sh(cmd,cwd=WT,timeout=900):
    p=subprocess.run(cmd,shell=True,cwd=cwd,env=ENV,stdout=subprocess.PIPE,stderr=subprocess.STDOUT,text=True,timeout=timeout)
    return p.returncode,p.stdout
def main():
    only=sys.argv[1:] 
    subprocess.run(['git','-C','/repo','worktree','remove','--force',WT],stderr=subprocess.DEVNULL)
    subprocess.check_call(['git','-C','/repo','worktree','add','-q','--detach',WT,'HEAD'])
    os.makedirs(OUT,exist_ok=True)
    results={}
    try:
        for d in sorted(glob.glob(STAGE+'/C*/*/')):
            prop,letter=d.rstrip('/').split('/')[-2:]
            mid=f'{prop}-{letter}'
            if only and mid not in only: continue
            txt=open(d+'demo_cmd.txt').read()
            places=re.findall(r'place\s+(\S+)\s+(?:in|at)\s+(\S+)',txt)
            cmds=[c.strip() for c in re.findall(r'(go test [^\n]*)',txt)]
            files=[]
            for src,dst in places:
                src=re.sub(r'^_out/[A-Z]/','',src)
                if dst.endswith('/'): dst=dst+os.path.basename(src)
                files.append((src,dst))
            # drop combined commands that duplicate
            cmds=[c for c in cmds if all(re.search(re.escape(os.path.dirname(dst)),c) for _,dst in files[:1]) or len(files)>1]
            if len(files)>1: cmds=cmds[:len(files)]
            log=[]
            sh('git checkout -q -- . && git clean -fdq')
            rc,o=sh(f'git apply {d}patch.diff'); log.append(('apply',rc))
            if rc!=0: results[mid]={'ok':False,'why':'patch does not apply','log':o}; continue
            rc,o=sh('go build ./... && go test -vet=off -count=1 ./...'); log.append(('suite_with_patch',rc))
            suite_ok = rc==0 and 'FAIL' not in o
            for src,dst in files: shutil.copy(d+src,os.path.join(WT,dst))
            fails=[]
            for c in cmds:
                rc,o=sh(c,timeout=300); fails.append((c,rc,o[-600:]))
            sh('git checkout -q -- .')
            passes=[]
            for c in cmds:
                rc,o=sh(c,timeout=300); passes.append((c,rc,o[-300:]))
            sh('git checkout -q -- . && git clean -fdq')
            demo_fails=any(rc!=0 for _,rc,_ in fails)
            demo_passes=all(rc==0 for _,rc,_ in passes)
            ok=suite_ok and demo_fails and demo_passes
            results[mid]={'ok':ok,'suite_ok':suite_ok,'demo_fails_with_patch':demo_fails,'demo_passes_without':demo_passes}
            print(mid,results[mid],flush=True)
            if ok:
                dst=os.path.join(OUT,mid); shutil.rmtree(dst,ignore_errors=True); os.makedirs(dst)
                shutil.copy(d+'patch.diff',dst+'/patch.diff')
                for src,dpath in files:
                    os.makedirs(os.path.dirname(os.path.join(dst,'demo',dpath)),exist_ok=True)
                    shutil.copy(d+src,os.path.join(dst,'demo',dpath))
                am=json.load(open(d+'meta.json'))
                meta={'id':mid,'property':prop,'summary':am.get('summary'),'breaks_because':am.get('breaks_because'),
                      'needs_to_manifest':am.get('needs_to_manifest'),
                      'demo_files':[dp for _,dp in files],'demo_cmds':cmds,
                      'demo_failure_with_patch':[o for _,rc,o in fails if rc!=0][:1],
                      'confirmed_by':'tools/confirm_mutants.py in scratch worktree /tmp/wt-confirm: git apply; go build ./... && go test -vet=off -count=1 ./... (all ok); demo fails with patch; demo passes on unchanged tree',
                      'origin':'independent sub-agent given only the property text and a scratch worktree'}
                json.dump(meta,open(dst+'/meta.json','w'),indent=1)
            else:
                results[mid]['fails']=fails; results[mid]['passes']=passes
    finally:
        subprocess.run(['git','-C','/repo','worktree','remove','--force',WT])
    json.dump(results,open('/root/scratch/mutants/confirm_results.json','w'),indent=1)
main()
