#!/usr/bin/env python3
"""Regenerates /verif/MANIFEST.json from the table below (single source of truth)."""
import json,subprocess
props=[json.loads(l) for l in open('/verif/properties.jsonl')]
ids=[p['id'] for p in props]
# property -> (design_ref, level text, level note)
CLAIMED={
 'C09':("DESIGN.md section 7 C09","Deductive proof (weakest-precondition VCs over go/ssa of the real code, discharged by z3/cvc5) of the padding arithmetic for ALL (buffered length, target) pairs, frame size bound, makePacket preconditions and panic-freedom of the functions listed in the evidence; holds for every input, not a sample.","Trusted: go/ssa lowering, govc VC generator, SMT solvers, trusted specs of bytes.Buffer/io.Writer/encoding/binary listed in evidence.trusted_base; contracts marked nobody are assumptions (listed). IAT sleep timing is outside the model."),
 'C12':("DESIGN.md section 7 C12","Deductive proof that the random helpers and Sample return values inside their ranges for all arguments (machine integers modelled exactly, including overflow), and structural determinism of Reset; floating-point exactness of the alias tables is NOT decided (listed under undecided_clauses).","Trusted: math/rand spec (Intn/Int63n ranges), solvers, go/ssa. Floating point uninterpreted."),
 'C15':("DESIGN.md section 7 C15","Deductive proof that the UniformDH response parser never reads past the received bytes, for every response length/mark position (all segmentations), and consumes no more than it received; ticket/stream clauses as listed in the evidence.","Trusted: hash.Hash/hmac/bytes.Index specs, uniformdh.Handshake contract (assumed), solvers, go/ssa. No ScrambleSuit server exists in the tree: 'conforming server' is represented by the contract."),
 'C19':("DESIGN.md section 7 C19","Deductive proof of the handler-count/termination contract of termMonitor.wait with ghost channel state (count equals the sum of received deltas; never blocks with count zero on graceful shutdown; a received signal is returned at once). Relay prefix/drain clauses under racing io.Copy goroutines are NOT decided (undecided_clauses).","Trusted: Go channel semantics as modelled (ghost receive sums, blocking counter), solvers, go/ssa; other goroutines' sends are unconstrained (rely)."),
}
checks=[]
for pid in ids:
    if pid not in CLAIMED: continue
    ref,text,note=CLAIMED[pid]
    checks.append({"property_id":pid,
      "quick_cmd":f"/verif/bin/govc check -property {pid} -tier quick",
      "thorough_cmd":f"/verif/bin/govc check -property {pid} -tier thorough",
      "evidence_file":f"/verif/evidence/{pid}.json",
      "replay_cmd_template":"/verif/bin/govc replay {path}",
      "engine":"govc",
      "level_claimed":{"category":"proof","text":text,"design_ref":ref},
      "level_note":note,
      "technique":"contract-based deductive verification: contracts on the real Go functions, weakest-precondition VCs over go/ssa, discharged by z3 5.1/cvc5/z3 4.8"})
hooks=[l.split()[0] for l in subprocess.check_output(['git','-C','/repo','log','--format=%h %s']).decode().splitlines() if l.split(' ',1)[1].startswith('verif:')]
m={"version":1,
"setup_cmd":"cd /verif/govc && GOFLAGS=-mod=mod GOPROXY=off GOSUMDB=off GOTOOLCHAIN=local go build -o /verif/bin/govc .",
"hooks":{"guard":"verif","enable":"go/packages loads /repo with -tags=verif; the only hook files are /repo/<pkg>/verif_contracts.go (comment-only, //go:build verif)","baseline_off_cmd":"cd /repo && GOFLAGS=-mod=mod go test -vet=off -count=1 -timeout 25m ./...","source_commits":hooks,"add_only":True},
"engines":[{"name":"govc","path":"/verif/govc","serves_properties":[c['property_id'] for c in checks],"kind_free_text":"contract-based deductive verifier built for this task: go/packages+go/ssa of /repo's working tree -> forward symbolic execution between cut points -> SMT-LIB obligations -> z3-new/cvc5/z3 portfolio; replay of models through go test -overlay"}],
"checks":checks,
"notes":"See DESIGN.md. Known findings / fixed defects: /verif/known_findings.json. Seeded property-breaking changes: /verif/seeded/.",
"not_applicable":[{"property_id":pid,"reason":"not claimed yet: contracts for this property are still under construction in this session (planned design in DESIGN.md section 7); no check is registered until its obligations discharge on the unchanged tree"} for pid in ids if pid not in CLAIMED]}
json.dump(m,open('/verif/MANIFEST.json','w'),indent=1)
print(len(checks),"claimed")
