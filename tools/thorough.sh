#!/bin/bash
# Thorough check of one property:
#  1. the proof run with the thorough budgets (20 s / 90 s) and the requirement that a second,
#     independent solver agrees with every `unsat`  -> decides the exit code and writes the evidence;
#  2. a must-fail self-test: every seeded property-breaking change of this property (/verif/seeded) is
#     applied to a scratch COPY of /repo's working tree (never to /repo) and the quick check must
#     report it.  The outcome is appended to the evidence (coverage.must_fail_corpus); a miss is
#     printed as SELFTEST-MISS but is not a violation of the property on the unchanged tree.
# usage: tools/thorough.sh Cnn
p=$1
/verif/bin/govc check -property $p -tier thorough; rc=$?
scratch=$(mktemp -d /root/govc-selftest-XXXXXX) || exit $rc
trap 'rm -rf "$scratch"' EXIT
res="[]"
for d in /verif/seeded/$p-*/; do
  [ -f "$d/patch.diff" ] || continue
  id=$(basename $d)
  rm -rf "$scratch/repo"; mkdir -p "$scratch/repo"
  rsync -a --exclude .git /repo/ "$scratch/repo/"
  if ! (cd "$scratch/repo" && git init -q . 2>/dev/null; git apply "$d/patch.diff") 2>/dev/null; then
    res=$(python3 -c "import json,sys;r=json.loads(sys.argv[1]);r.append({'seeded_change':sys.argv[2],'result':'patch does not apply to the current tree'});print(json.dumps(r))" "$res" "$id"); continue
  fi
  out=$(/verif/bin/govc check -repo "$scratch/repo" -property $p -tier quick -noevidence 2>&1); mrc=$?
  first=$(echo "$out" | grep -oE "obligation [^ ]+ failed \([a-z]+\)" | head -1)
  if [ $mrc -eq 1 ]; then r="reported"; else r="MISSED"; echo "SELFTEST-MISS property=$p seeded_change=$id (check exit $mrc)"; fi
  res=$(python3 -c "import json,sys;r=json.loads(sys.argv[1]);r.append({'seeded_change':sys.argv[2],'result':sys.argv[3],'first_failed':sys.argv[4]});print(json.dumps(r))" "$res" "$id" "$r" "$first")
done
python3 - "$p" "$res" <<'PY'
import json,sys
p,res=sys.argv[1],json.loads(sys.argv[2])
f='/verif/evidence/%s.json'%p
try:
    ev=json.load(open(f)); ev['coverage']['must_fail_corpus']=res; json.dump(ev,open(f,'w'),indent=1)
except Exception as e: print('selftest: evidence not updated:',e)
PY
exit $rc
