#!/usr/bin/env python3
"""Debug helper: greedy minimisation of the non-axiom assertions of an SMT query that is
reported unsat (used to find contradictory hypotheses behind a failed cover obligation).
usage: mincore.py query.smt2 [budget_seconds]"""
import subprocess, sys, time

src = sys.argv[1]
budget = float(sys.argv[2]) if len(sys.argv) > 2 else 240
lines = open(src).read().split('\n')
tmp = src + '.min.smt2'


def run(ls, t=4):
    open(tmp, 'w').write('\n'.join(ls))
    try:
        return subprocess.run(['z3-new', '-T:%d' % t, tmp], capture_output=True, text=True, timeout=t + 3).stdout.split('\n')[0]
    except Exception:
        return 'TO'


idx = [i for i, l in enumerate(lines) if l.startswith('(assert ') and not l.startswith('(assert (forall')]
idxset = set(idx)


def build(sel):
    s = set(sel)
    return [l for i, l in enumerate(lines) if i in s or i not in idxset]


print('all:', run(build(idx)))
# shortest unsat prefix
lo, hi = 0, len(idx)
while lo < hi:
    mid = (lo + hi) // 2
    if run(build(idx[:mid + 1])) == 'unsat':
        hi = mid
    else:
        lo = mid + 1
sel = idx[:lo + 1]
print('prefix', len(sel))
t0 = time.time()
chunk = 64
while chunk >= 1 and time.time() - t0 < budget:
    i = 0
    while i < len(sel) - 1 and time.time() - t0 < budget:
        trial = sel[:i] + sel[i + chunk:]
        if sel[-1] in trial and run(build(trial)) == 'unsat':
            sel = trial
        else:
            i += chunk
    chunk //= 2
print(len(sel))
for j in sel:
    print(lines[j][:400])
