package main

import (
	"fmt"
	"go/types"
	"os"
	"path/filepath"
	"regexp"
	"sort"
	"strings"

	"golang.org/x/tools/go/packages"
	"golang.org/x/tools/go/ssa"
	"golang.org/x/tools/go/ssa/ssautil"
)

const modPath = "gitlab.com/yawning/obfs4.git"

type World struct {
	RepoDir      string
	Prog         *ssa.Program
	Pkgs         []*packages.Package
	SSAPkgs      map[string]*ssa.Package // by path
	AllFuncs     map[*ssa.Function]bool
	FuncByKey    map[string]*ssa.Function // fn.String() -> fn
	Specs        *Specs
	TypeByKey    map[string]types.Type // "bytes.Buffer" -> named type
	ContractOf   map[*ssa.Function]*Contract
	Unbound      []unboundContract    // contracts in /repo whose target function no longer exists or changed its signature
	IfaceSpec    map[string]*Contract // "(net.Conn).Read" -> contract
	TagOf        map[string]int       // dynamic type string -> tag
	TagNames     []string
	Sentinels    map[*ssa.Global]int        // package-level error sentinels (errors.New) -> id
	SentinelType map[*ssa.Global]types.Type // dynamic type when initialised by a conversion
	ToolErrs     []string
	tagTypeMap   map[int]types.Type
	tagsAtLoad   int
	lits         map[string][]string
	litByText    map[string]string
	zeroGlobals  map[*ssa.Global]bool
	eltyIDs      map[string]int
	implCache    map[string][]int
	embeddable   map[string]bool
	containers   map[string]map[string]types.Type
	elemOf       map[string]bool
	contCache    map[string][]types.Type
	specFnDecl   map[string]string
	specFnBody   map[string]string
	specFnOrder  []string
	axiomSMT     []string
	axiomSyms    [][]string
}

func loadWorld(repo string, specDir string) (*World, error) {
	cfg := &packages.Config{
		Mode:       packages.LoadAllSyntax,
		Dir:        repo,
		BuildFlags: []string{"-tags=verif"},
		Env:        append(os.Environ(), "GOFLAGS=-mod=mod", "GOPROXY=off", "GOSUMDB=off", "GOTOOLCHAIN=local"),
	}
	pkgs, err := packages.Load(cfg, "./...")
	if err != nil {
		return nil, err
	}
	var errs []string
	packages.Visit(pkgs, nil, func(p *packages.Package) {
		for _, e := range p.Errors {
			if strings.HasPrefix(p.PkgPath, modPath) {
				errs = append(errs, e.Error())
			}
		}
	})
	if len(errs) > 0 {
		return nil, fmt.Errorf("repository does not type-check: %s", strings.Join(errs, "; "))
	}
	prog, spkgs := ssautil.AllPackages(pkgs, ssa.GlobalDebug)
	prog.Build()
	w := &World{RepoDir: repo, Prog: prog, Pkgs: pkgs, SSAPkgs: map[string]*ssa.Package{}, FuncByKey: map[string]*ssa.Function{},
		TypeByKey: map[string]types.Type{}, ContractOf: map[*ssa.Function]*Contract{}, IfaceSpec: map[string]*Contract{},
		TagOf: map[string]int{}, Sentinels: map[*ssa.Global]int{}}
	_ = spkgs
	for _, p := range prog.AllPackages() {
		w.SSAPkgs[p.Pkg.Path()] = p
		for _, m := range p.Members {
			if t, ok := m.(*ssa.Type); ok {
				key := p.Pkg.Name() + "." + t.Name()
				if _, dup := w.TypeByKey[key]; !dup || strings.HasPrefix(p.Pkg.Path(), modPath) {
					w.TypeByKey[key] = t.Type()
				}
				w.TypeByKey[p.Pkg.Path()+"."+t.Name()] = t.Type()
			}
		}
	}
	w.AllFuncs = ssautil.AllFunctions(prog)
	for f := range w.AllFuncs {
		w.FuncByKey[f.String()] = f
	}
	// specs
	w.Specs = newSpecs()
	specFiles, _ := filepath.Glob(filepath.Join(specDir, "*.spec"))
	sort.Strings(specFiles)
	for _, f := range specFiles {
		if err := w.Specs.parseFile(f, ""); err != nil {
			return nil, err
		}
	}
	for _, p := range pkgs {
		if !strings.HasPrefix(p.PkgPath, modPath) {
			continue
		}
		rel := strings.TrimPrefix(strings.TrimPrefix(p.PkgPath, modPath), "/")
		cf := filepath.Join(repo, rel, "verif_contracts.go")
		if _, err := os.Stat(cf); err == nil {
			if err := w.Specs.parseFile(cf, p.PkgPath); err != nil {
				return nil, err
			}
		}
	}
	if err := w.bindContracts(); err != nil {
		return nil, err
	}
	w.findSentinels()
	w.computeEmbeddable()
	w.preRegisterTags(specDir)
	w.findZeroGlobals()
	if err := w.prepareSpecs(); err != nil {
		return nil, err
	}
	w.tagsAtLoad = len(w.TagNames)
	return w, nil
}

type unboundContract struct {
	c   *Contract
	msg string
}

// bindContracts resolves every contract key to an SSA function or an
// interface method.  An unresolved key or an arity mismatch is a tool error.
func (w *World) bindContracts() error {
	for _, c := range w.Specs.Order {
		if strings.HasPrefix(c.Key, "invoke ") {
			k := strings.TrimSpace(strings.TrimPrefix(c.Key, "invoke "))
			w.IfaceSpec[k] = c
			continue
		}
		var fn *ssa.Function
		if c.Pkg != "" {
			sp := w.SSAPkgs[c.Pkg]
			if sp == nil {
				return fmt.Errorf("%s:%d: package %s not loaded", c.File, c.Line, c.Pkg)
			}
			for f := range w.AllFuncs {
				if f.Pkg == sp && f.RelString(sp.Pkg) == c.Key {
					fn = f
					break
				}
				// closures: parent package
				if f.Pkg == nil && f.Parent() != nil && f.Parent().Pkg == sp && f.RelString(sp.Pkg) == c.Key {
					fn = f
					break
				}
			}
		} else {
			fn = w.FuncByKey[c.Key]
		}
		if fn == nil {
			if c.Pkg == "" {
				// spec for a function that is not in the program: ignore silently (unused spec)
				continue
			}
			// the function the contract was written for is gone (renamed, removed, receiver changed):
			// whatever the contract proved is no longer proved - a failed obligation, not a tool error
			w.Unbound = append(w.Unbound, unboundContract{c, fmt.Sprintf("%s:%d: contract target %q does not exist in %s", c.File, c.Line, c.Key, c.Pkg)})
			continue
		}
		np := len(fn.Params)
		nr := fn.Signature.Results().Len()
		if len(c.Params) != np || len(c.Results) != nr {
			var pn []string
			for _, p := range fn.Params {
				pn = append(pn, p.Name())
			}
			msg := fmt.Sprintf("%s:%d: contract for %s names %d params / %d results, function has %d (%s) / %d",
				c.File, c.Line, c.Key, len(c.Params), len(c.Results), np, strings.Join(pn, ","), nr)
			if c.Pkg == "" {
				return fmt.Errorf("%s", msg)
			}
			w.Unbound = append(w.Unbound, unboundContract{c, msg})
			continue
		}
		w.ContractOf[fn] = c
	}
	return nil
}

// findSentinels: package-level variables of interface type error that are
// initialised by errors.New / fmt.Errorf in the package initialiser and never
// stored elsewhere are modelled as distinct non-nil constants.
func (w *World) findSentinels() {
	id := 1
	var pkgs []*ssa.Package
	for _, p := range w.Prog.AllPackages() {
		pkgs = append(pkgs, p)
	}
	sort.Slice(pkgs, func(i, j int) bool { return pkgs[i].Pkg.Path() < pkgs[j].Pkg.Path() })
	stores := map[*ssa.Global]int{}
	inits := map[*ssa.Global]bool{}
	for f := range w.AllFuncs {
		for _, b := range f.Blocks {
			for _, in := range b.Instrs {
				st, ok := in.(*ssa.Store)
				if !ok {
					continue
				}
				g, ok := st.Addr.(*ssa.Global)
				if !ok {
					continue
				}
				stores[g]++
				if f.Name() == "init" && f.Pkg != nil && f.Pkg == g.Pkg {
					if call, ok := st.Val.(*ssa.Call); ok {
						if cf := call.Call.StaticCallee(); cf != nil {
							n := cf.String()
							if n == "errors.New" || n == "fmt.Errorf" {
								inits[g] = true
							}
						}
					}
					if mi, ok := st.Val.(*ssa.MakeInterface); ok {
						inits[g] = true
						if w.SentinelType == nil {
							w.SentinelType = map[*ssa.Global]types.Type{}
						}
						w.SentinelType[g] = mi.X.Type()
					}
				}
			}
		}
	}
	for _, p := range pkgs {
		var names []string
		for n := range p.Members {
			names = append(names, n)
		}
		sort.Strings(names)
		for _, n := range names {
			g, ok := p.Members[n].(*ssa.Global)
			if !ok {
				continue
			}
			pt, ok := g.Type().(*types.Pointer)
			if !ok {
				continue
			}
			if !types.IsInterface(pt.Elem()) {
				continue
			}
			if inits[g] && stores[g] == 1 {
				w.Sentinels[g] = id
				id++
			}
		}
	}
}

// arrayClass: the smallest tag among the array types whose underlying type is identical to that of
// tag id (pointers to such types convert into each other, so they may alias).
func (w *World) arrayClass(id int) int {
	t := w.tagTypes()[id]
	best := id
	for oid, ot := range w.tagTypes() {
		if _, isArr := ot.Underlying().(*types.Array); isArr && oid < best && types.Identical(ot.Underlying(), t.Underlying()) {
			best = oid
		}
	}
	return best
}

func (w *World) tagFor(t types.Type) int {
	k := types.TypeString(t, nil)
	if id, ok := w.TagOf[k]; ok {
		return id
	}
	id := len(w.TagOf) + 1
	w.TagOf[k] = id
	w.TagNames = append(w.TagNames, k)
	w.tagTypes()[id] = t
	// keep the table closed under pointer / element: T <-> *T
	switch u := t.(type) {
	case *types.Pointer:
		w.tagFor(u.Elem())
	default:
		switch t.Underlying().(type) {
		case *types.Struct, *types.Array:
			w.tagFor(types.NewPointer(t))
		}
	}
	return id
}

// lookupType resolves "bytes.Buffer" or "*bytes.Buffer" style names.
func (w *World) lookupType(name string) types.Type {
	ptr := 0
	for strings.HasPrefix(name, "*") {
		ptr++
		name = name[1:]
	}
	t := w.TypeByKey[name]
	if t == nil {
		if o, ok := types.Universe.Lookup(name).(*types.TypeName); ok {
			t = o.Type()
		}
	}
	if t == nil {
		return nil
	}
	for i := 0; i < ptr; i++ {
		t = types.NewPointer(t)
	}
	return t
}

// computeEmbeddable: the set of struct/array types that occur by value inside
// another struct, array or slice anywhere in the program.  A pointer to a
// type outside this set can only point to a whole allocated object.
func (w *World) computeEmbeddable() {
	w.embeddable = map[string]bool{}
	w.containers = map[string]map[string]types.Type{}
	w.elemOf = map[string]bool{}
	w.contCache = map[string][]types.Type{}
	seen := map[types.Type]bool{}
	var curNamed []types.Type
	var walk func(t types.Type)
	mark := func(t types.Type) {
		switch t.Underlying().(type) {
		case *types.Struct, *types.Array:
			w.embeddable[types.TypeString(t, nil)] = true
		}
	}
	walk = func(t types.Type) {
		if t == nil || seen[t] {
			return
		}
		seen[t] = true
		switch u := t.(type) {
		case *types.Named:
			curNamed = append(curNamed, u)
			walk(u.Underlying())
			curNamed = curNamed[:len(curNamed)-1]
		case *types.Pointer:
			walk(u.Elem())
		case *types.Struct:
			var owner types.Type = u
			if len(curNamed) > 0 {
				if curNamed[len(curNamed)-1].Underlying() == types.Type(u) {
					owner = curNamed[len(curNamed)-1]
				}
			}
			for i := 0; i < u.NumFields(); i++ {
				ft := u.Field(i).Type()
				mark(ft)
				switch ft.Underlying().(type) {
				case *types.Struct, *types.Array:
					k := types.TypeString(ft, nil)
					if w.containers[k] == nil {
						w.containers[k] = map[string]types.Type{}
					}
					w.containers[k][types.TypeString(owner, nil)] = owner
				}
				walk(ft)
			}
		case *types.Array:
			mark(u.Elem())
			w.elemOf[types.TypeString(u.Elem(), nil)] = true
			walk(u.Elem())
		case *types.Slice:
			mark(u.Elem())
			w.elemOf[types.TypeString(u.Elem(), nil)] = true
			walk(u.Elem())
		case *types.Map:
			walk(u.Key())
			walk(u.Elem())
		case *types.Chan:
			walk(u.Elem())
		case *types.Signature:
			walk(u.Params())
			walk(u.Results())
		case *types.Tuple:
			for i := 0; i < u.Len(); i++ {
				walk(u.At(i).Type())
			}
		}
	}
	for _, p := range w.Prog.AllPackages() {
		for _, m := range p.Members {
			switch x := m.(type) {
			case *ssa.Type:
				walk(x.Type())
			case *ssa.Global:
				walk(x.Type())
			}
		}
	}
	for f := range w.AllFuncs {
		walk(f.Signature)
		for _, b := range f.Blocks {
			for _, in := range b.Instrs {
				if v, ok := in.(ssa.Value); ok {
					walk(v.Type())
				}
			}
		}
	}
}

// containerTypes: all struct types that transitively contain a T by value
// through struct fields only; ok=false when T (or a container) can also be an
// array/slice element, in which case nothing is assumed.
func (w *World) containerTypes(t types.Type) (out []types.Type, ok bool) {
	k := types.TypeString(t, nil)
	if c, hit := w.contCache[k]; hit {
		return c, c != nil
	}
	seen := map[string]bool{}
	var res []types.Type
	good := true
	var rec func(key string)
	rec = func(key string) {
		if seen[key] {
			return
		}
		seen[key] = true
		if w.elemOf[key] {
			good = false
			return
		}
		for ck, ct := range w.containers[key] {
			res = append(res, ct)
			rec(ck)
		}
	}
	rec(k)
	if !good || len(res) > 12 {
		w.contCache[k] = nil
		return nil, false
	}
	if res == nil {
		res = []types.Type{}
	}
	sort.Slice(res, func(i, j int) bool { return types.TypeString(res[i], nil) < types.TypeString(res[j], nil) })
	w.contCache[k] = res
	return res, true
}

// preRegisterTags fills the dynamic-type table before any function is
// verified, so that "the dynamic type implements the static interface"
// assumptions range over the same set of known types in every function:
// every type converted to an interface in the module, and every type named
// in a contract or spec (typeis / type assertions / dispatch).
func (w *World) preRegisterTags(specDir string) {
	var fns []*ssa.Function
	for f := range w.AllFuncs {
		p := f.Pkg
		if p == nil && f.Parent() != nil {
			p = f.Parent().Pkg
		}
		if p != nil && strings.HasPrefix(p.Pkg.Path(), modPath) {
			fns = append(fns, f)
		}
	}
	sort.Slice(fns, func(i, j int) bool { return fns[i].String() < fns[j].String() })
	w.tagFor(types.NewPointer(types.Typ[types.Invalid])) // sentinel pseudo type
	for _, dt := range w.SentinelType {
		_ = dt
	}
	seen := map[types.Type]bool{}
	var reg func(t types.Type, depth int)
	reg = func(t types.Type, depth int) {
		if t == nil || seen[t] || depth > 6 {
			return
		}
		seen[t] = true
		switch u := t.Underlying().(type) {
		case *types.Pointer:
			switch u.Elem().Underlying().(type) {
			case *types.Struct, *types.Array:
				w.tagFor(t)
			}
			reg(u.Elem(), depth+1)
		case *types.Chan:
			w.tagFor(t)
			reg(u.Elem(), depth+1)
		case *types.Map:
			w.tagFor(t)
			reg(u.Key(), depth+1)
			reg(u.Elem(), depth+1)
		case *types.Struct:
			w.tagFor(t)
			for i := 0; i < u.NumFields(); i++ {
				reg(u.Field(i).Type(), depth+1)
			}
		case *types.Array:
			w.tagFor(t)
			reg(u.Elem(), depth+1)
		case *types.Slice:
			reg(u.Elem(), depth+1)
		case *types.Tuple:
			for i := 0; i < u.Len(); i++ {
				reg(u.At(i).Type(), depth+1)
			}
		}
	}
	for _, f := range fns {
		for _, p := range f.Params {
			reg(p.Type(), 0)
		}
		for _, b := range f.Blocks {
			for _, in := range b.Instrs {
				if mi, ok := in.(*ssa.MakeInterface); ok {
					w.tagFor(mi.X.Type())
				}
				if ta, ok := in.(*ssa.TypeAssert); ok && !types.IsInterface(ta.AssertedType) {
					w.tagFor(ta.AssertedType)
					if pt, isPtr := ta.AssertedType.(*types.Pointer); isPtr {
						w.tagFor(pt.Elem())
					}
				}
				if v, ok := in.(ssa.Value); ok {
					reg(v.Type(), 0)
				}
			}
		}
	}
	// container types of everything registered so far
	for i := 0; i < len(w.TagNames); i++ {
		if t := w.tagTypes()[i+1]; t != nil {
			if cts, ok := w.containerTypes(t); ok {
				for _, ct := range cts {
					w.tagFor(ct)
				}
			}
		}
	}
	re := regexp.MustCompile(`typeis\([^,]+,\s*"([^"]+)"\)|\.\((\*?[A-Za-z0-9_./]+)\)|dispatch\s+(.*)`)
	var files []string
	sf, _ := filepath.Glob(filepath.Join(specDir, "*.spec"))
	files = append(files, sf...)
	for _, p := range w.Pkgs {
		if strings.HasPrefix(p.PkgPath, modPath) {
			rel := strings.TrimPrefix(strings.TrimPrefix(p.PkgPath, modPath), "/")
			files = append(files, filepath.Join(w.RepoDir, rel, "verif_contracts.go"))
		}
	}
	sort.Strings(files)
	for _, f := range files {
		data, err := os.ReadFile(f)
		if err != nil {
			continue
		}
		for _, m := range re.FindAllStringSubmatch(string(data), -1) {
			for _, g := range m[1:] {
				for _, name := range strings.Fields(g) {
					if t := w.lookupType(name); t != nil {
						w.tagFor(t)
					}
				}
			}
		}
	}
}

// implementers: ids of the known dynamic types that implement the interface.
func (w *World) implementers(it *types.Interface, named types.Type) []int {
	key := types.TypeString(named, nil)
	if w.implCache == nil {
		w.implCache = map[string][]int{}
	}
	if w.tagsAtLoad > 0 {
		if c, ok := w.implCache[key]; ok {
			return c
		}
	}
	var out []int
	for id := 1; id <= len(w.TagNames); id++ {
		dt := w.tagTypes()[id]
		if dt == nil {
			continue
		}
		if _, isIface := dt.Underlying().(*types.Interface); isIface {
			continue
		}
		if b, isBasic := dt.(*types.Basic); isBasic && b.Kind() == types.Invalid {
			continue
		}
		if pt, isPtr := dt.(*types.Pointer); isPtr {
			if b, isBasic := pt.Elem().(*types.Basic); isBasic && b.Kind() == types.Invalid {
				if it.NumMethods() == 1 && it.Method(0).Name() == "Error" {
					out = append(out, id)
				}
				continue
			}
		}
		if types.Implements(dt, it) {
			out = append(out, id)
		}
	}
	if w.tagsAtLoad > 0 {
		w.implCache[key] = out
	}
	return out
}

// eltyFor: identifier of an array element type (arrays of different element
// types never share storage).
func (w *World) eltyFor(t types.Type) int {
	k := types.TypeString(t.Underlying(), nil)
	if b, ok := t.Underlying().(*types.Basic); ok {
		// byte/uint8 and rune/int32 are the same type under two names (types.Typ[types.Byte] prints
		// "uint8", the element type of a source-level []byte prints "byte"): one id per kind
		k = fmt.Sprintf("basic#%d", b.Kind())
	}
	if w.eltyIDs == nil {
		w.eltyIDs = map[string]int{}
	}
	if id, ok := w.eltyIDs[k]; ok {
		return id
	}
	id := len(w.eltyIDs) + 1
	w.eltyIDs[k] = id
	return id
}

// findZeroGlobals: package-level byte arrays of the module that have no
// initialiser and whose only uses are slices passed as the source of copy()
// keep their zero value for ever.
func (w *World) findZeroGlobals() {
	w.zeroGlobals = map[*ssa.Global]bool{}
	cand := map[*ssa.Global]bool{}
	for _, p := range w.Prog.AllPackages() {
		if !strings.HasPrefix(p.Pkg.Path(), modPath) {
			continue
		}
		for _, m := range p.Members {
			if g, ok := m.(*ssa.Global); ok {
				if pt, ok := g.Type().(*types.Pointer); ok {
					if at, ok := pt.Elem().Underlying().(*types.Array); ok && kindOf(at.Elem()) == KInt {
						cand[g] = true
					}
				}
			}
		}
	}
	for f := range w.AllFuncs {
		for _, b := range f.Blocks {
			for _, in := range b.Instrs {
				for _, op := range in.Operands(nil) {
					g, ok := (*op).(*ssa.Global)
					if !ok || !cand[g] {
						continue
					}
					okUse := false
					if sl, isSlice := in.(*ssa.Slice); isSlice && sl.X == g {
						okUse = true
						for _, ref := range *sl.Referrers() {
							call, isCall := ref.(*ssa.Call)
							if !isCall {
								if _, dbg := ref.(*ssa.DebugRef); dbg {
									continue
								}
								okUse = false
								break
							}
							bi, isBi := call.Call.Value.(*ssa.Builtin)
							if !isBi || bi.Name() != "copy" || len(call.Call.Args) != 2 || call.Call.Args[1] != ssa.Value(sl) || call.Call.Args[0] == ssa.Value(sl) {
								okUse = false
								break
							}
						}
					}
					if _, dbg := in.(*ssa.DebugRef); dbg {
						okUse = true
					}
					if !okUse {
						delete(cand, g)
					}
				}
			}
		}
	}
	for g := range cand {
		w.zeroGlobals[g] = true
	}
}

// ghostFieldsOf: ghost fields declared for the named struct type, by id.
func (w *World) ghostFieldsOf(t types.Type) []*GhostField {
	tk := typeKey(t)
	if tk == "" {
		return nil
	}
	if _, isPtr := t.(*types.Pointer); isPtr {
		return nil
	}
	var out []*GhostField
	for k, gf := range w.Specs.GhostFields {
		if k == tk+"."+gf.Name {
			out = append(out, gf)
		}
	}
	sort.Slice(out, func(i, j int) bool { return out[i].ID < out[j].ID })
	return out
}
