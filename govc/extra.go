package main

import (
	"fmt"
	"strings"

	"golang.org/x/tools/go/ssa"
)

type structResult struct {
	Name   string
	OK     bool
	Detail string
}

// extraObligations: lemmas and constant relations serving the property.
func (w *World) extraObligations(prop string) ([]*Oblig, error) {
	var out []*Oblig
	for _, lm := range w.Specs.Lemmas {
		serves := false
		for _, s := range lm.Serves {
			if s == prop {
				serves = true
			}
		}
		if !serves {
			continue
		}
		r := &FnRun{W: w, inputs: map[string]string{}, Assump: map[string]bool{}, ord: map[string]int{}, siteOrd: map[ssa.Instruction]map[string]int{}}
		st := &State{vals: map[ssa.Value]Val{}, heap: map[string]string{}, ghost: map[string]Val{}}
		env := &Env{r: r, st: st, vars: map[string]Val{}}
		if lm.Pkg != "" {
			if sp := w.SSAPkgs[lm.Pkg]; sp != nil {
				env.pkg = sp.Pkg
			}
		}
		for _, vd := range lm.Vars {
			f := strings.Fields(vd)
			if len(f) != 2 {
				return nil, fmt.Errorf("%s: lemma %s: bad var %q", lm.File, lm.Name, vd)
			}
			k, ok := sortKind(f[1])
			if !ok {
				return nil, fmt.Errorf("%s: lemma %s: bad sort %q", lm.File, lm.Name, f[1])
			}
			n := r.fresh("lv."+f[0], smtSort(f[1]))
			env.vars[f[0]] = Val{K: k, S: n}
		}
		for _, rq := range lm.Requires {
			v := env.eval(rq.Expr)
			if env.err != nil {
				return nil, fmt.Errorf("%s:%d: lemma %s: %v", rq.File, rq.Line, lm.Name, env.err)
			}
			st.assume(v.S)
		}
		cv := &Oblig{Name: "lemma." + lm.Name + "/cover", Kind: "cover", Func: "lemma " + lm.Name, Goal: "false", PC: st.pc, NDecl: len(r.decls), Run: r,
			Desc: "lemma hypotheses are satisfiable (must be SAT)", Props: lm.Serves, Cover: true, Inputs: r.inputs}
		out = append(out, cv)
		for i, en := range lm.Ensures {
			v := env.eval(en.Expr)
			if env.err != nil {
				return nil, fmt.Errorf("%s:%d: lemma %s: %v", en.File, en.Line, lm.Name, env.err)
			}
			name := fmt.Sprintf("lemma.%s/%d", lm.Name, i+1)
			if en.Name != "" {
				name = fmt.Sprintf("lemma.%s/%s", lm.Name, en.Name)
			}
			out = append(out, &Oblig{Name: name, Kind: "lemma", Func: "lemma " + lm.Name, Goal: v.S, PC: st.pc, NDecl: len(r.decls), Run: r,
				Desc: "lemma over contracts/spec functions only: " + en.Src, Clause: en.Src, Props: lm.Serves, Inputs: r.inputs})
			st.assume(v.S)
		}
	}
	for _, cc := range w.Specs.ConstChecks {
		serves := false
		for _, s := range cc.Serves {
			if s == prop {
				serves = true
			}
		}
		if !serves {
			continue
		}
		r := &FnRun{W: w, inputs: map[string]string{}, Assump: map[string]bool{}, ord: map[string]int{}, siteOrd: map[ssa.Instruction]map[string]int{}}
		st := &State{vals: map[ssa.Value]Val{}, heap: map[string]string{}, ghost: map[string]Val{}}
		env := &Env{r: r, st: st, vars: map[string]Val{}}
		if sp := w.SSAPkgs[cc.Pkg]; sp != nil {
			env.pkg = sp.Pkg
		}
		v := env.eval(cc.Expr)
		if env.err != nil {
			return nil, fmt.Errorf("%s: const %s: %v", cc.File, cc.Name, env.err)
		}
		pk := cc.Pkg
		if i := strings.LastIndex(pk, "/"); i >= 0 {
			pk = pk[i+1:]
		}
		out = append(out, &Oblig{Name: "const." + pk + "." + cc.Name, Kind: "const", Func: "package " + pk, Goal: v.S, PC: st.pc, NDecl: len(r.decls), Run: r,
			Desc: "relation between package constants: " + cc.Src, Clause: cc.Src, Props: cc.Serves, Inputs: r.inputs})
	}
	return out, nil
}

// per-property notes printed into the evidence on every run
func (w *World) undecided(prop string) []string {
	return undecidedClauses[prop]
}

func (w *World) propertyNotes(prop string) []string {
	return nil
}

var undecidedClauses = map[string][]string{
	"C01": {"real interleavings of the reader and writer goroutines: decided only up to footprints - the structural obligation struct.reader_writer_footprints_disjoint proves that Read-side and Write-side code touch disjoint fields of the connection except constructor-set pointers; the objects behind those pointers (net.Conn, WeightedDist with its mutex) are trusted to synchronise themselves", "end-to-end induction over frames (decode_encode / decode_split lemmas) is argued from the per-call contracts, not discharged as a separate lemma", "IAT sleeps; behaviour of the underlying net.Conn beyond its spec"},
	"C02": {"cryptographic unforgeability of HMAC and ntor AUTH (assumption)", "many clients handshaking concurrently (sharing only the replay filter, C11)"},
	"C03": {"wall-clock behaviour of deadlines in the kernel (modelled, not measured)", "indistinguishability of failure classes beyond the single closeAfterDelay funnel"},
	"C04": {"HMAC collision freedom", "concurrent submissions (reduced to the filter's mutex, C11)"},
	"C05": {"AEAD security of secretbox (assumption)"},
	"C06": {"the primitives themselves (x/crypto, siphash, crypto/hmac are trusted to be what their names say); no second implementation is in the loop", "Elligator 2 (C07)"},
	"C07": {"decode(encode(u)) = u and Diffie-Hellman agreement with clean X25519 (field/curve algebra is uninterpreted)", "equality of the decoder with an independently computed Elligator 2 map", "coverage of all eight cosets by generated public keys (distributional)", "that the selected root is below 2^254 (so that the tweak bits do not collide with representative bits)"},
	"C08": {"X25519 on low-order / non-canonical points (trusted x/crypto)", "HMAC collision resistance behind 'changes both outputs'"},
	"C09": {"actual inter-arrival times (sleeps are no-ops in the model)", "equality of client and server tables needs both processes to run with the same -obfs4-distBias flag (configuration assumption)"},
	"C10": {"memory held inside dependencies (bufio, http.Transport), goroutine liveness, stack depth", "network-facing functions not listed under functions_under_contract in this evidence are not covered yet"},
	"C11": {"exact membership over a whole history ('seen' exactly for values inserted less than ttl ago): needs sortedness of firstSeen along the list, which holds only under the monotone-clock premise and is not maintained as an invariant", "linearizability is argued by the lock invariant (every critical section sees and re-establishes wf); the mutual exclusion of sync.Mutex itself is trusted", "the code detects a backwards clock only relative to its oldest entry (observation)"},
	"C12": {"numerical exactness of the alias tables: floating point is uninterpreted, so only the STRUCTURE of the normalisation is decided (scaled_i is weight_i * n / FSUM(all weights), built by exactly those float64 operations); that Vose's redistribution loop preserves the distribution, and rounding error, are not decided", "that the biased/uniform weight generators draw the documented distributions (only their shapes: one weight per value)"},
	"C13": {"interoperation with an actual independent obfs3 implementation (the specification is encoded in the postconditions)", "number theory behind the two MODEXP axioms and that modpStr is the 1536-bit RFC 3526 prime", "Dial/WrapConn callers"},
	"C14": {"interoperation with an actual independent implementation (the specification is encoded in the postconditions instead)", "AES-CTR/SHA-256 themselves (uninterpreted)", "Dial/WrapConn callers and the precondition that the wrapped conn is not itself an obfs2Conn"},
	"C15": {"behaviour against an actual conforming server (none in the tree)", "end-to-end stream equality across both peers (the contracts decide each side: packet layout as an independent reader decrypts it, only MAC-verified payload surfaces, in order, buffered payload first)", "handshake message generation (ssDHClientHandshake/ssTicketClientHandshake.generateHandshake) and storeTicket are assumed contracts; the JSON content of the ticket file is not decided (only that every successful checkpoint, of an empty store too, rewrites it)", "the two-packet padding case reproduces the reference implementation's off-by-one-header (tail = sample - 21): stated as such, not judged"},
	"C16": {"the network side of a round trip (status codes, bodies and errors are unconstrained; net/http enters through thin shape/freshness specs)", "that polling EVENTUALLY stops after Close: decided is the safety half (every request is preceded by a receive case on the close channel since the previous request); that Go's randomised select then picks the close case is a fairness assumption", "interleavings of Read/Write callers with the worker goroutine beyond the channel FIFO abstraction", "send on a closed channel is checked (safe.send) and Close/enqueueWrite are verified with sequential models of sync.Once and panic/recover; their behaviour under truly concurrent callers is trusted to the runtime"},
	"C17": {"round trip of the argument parser with an encoder (none is part of /repo): the parser is proved to be exactly the specified byte-level state machine, but parse(encode(x)) = x needs induction over strings", "the map produced by Args.Add is represented by the ordered log of (key, value) pairs added to it", "Handshake returns success even if disarming the deadline failed (the deferred closure assigns a local that was already returned) - observation, not part of C17"},
	"C18": {"durability beyond a process kill (fsync, directory entries, power loss)", "json.Unmarshal leaving absent fields untouched (modelled as overwriting all five fields)", "concurrent starts on one state directory", "crash during ssTicketStore.serialize is harmless only because loadTicketStore tolerates any content (proved); the CONTENT written by serialize (json.Marshal of a map) is not decided, only that every successful checkpoint rewrites the store file"},
	"C19": {"relay prefix / drain-before-close under racing io.Copy goroutines"},
	"C20": {"cleanliness of stdlib error fields (assumption)"},
}

func tryReplay(w *World, prop string, a *aggOblig, model map[string]string) map[string]any {
	return replayFor(w, prop, a, model)
}
