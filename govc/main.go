package main

import (
	"encoding/json"
	"flag"
	"fmt"
	"os"
	"path/filepath"
	"runtime"
	"sort"
	"strconv"
	"strings"
	"time"

	"golang.org/x/tools/go/ssa"
)

func sortStrings(s []string) { sort.Strings(s) }

const verifDir = "/verif"

type KnownFinding struct {
	Property   string `json:"property"`
	Obligation string `json:"obligation"`
	Witness    string `json:"witness"`
	What       string `json:"what"`
	Status     string `json:"status"` // "open" or "fixed"
	Commit     string `json:"commit,omitempty"`
}

type KnownFile struct {
	Findings []KnownFinding `json:"findings"`
	Fixed    []string       `json:"fixed"`
}

func loadKnown() *KnownFile {
	kf := &KnownFile{}
	data, err := os.ReadFile(filepath.Join(verifDir, "known_findings.json"))
	if err == nil {
		json.Unmarshal(data, kf)
	}
	return kf
}

type aggOblig struct {
	Name      string
	Kind      string
	Func      string
	Instances []*Oblig
	Verdict   string // discharged | failed | cover-ok | cover-vacuous
	Solver    string
	TimeMS    int64
	Fail      *Oblig
}

func main() {
	if len(os.Args) < 2 {
		fmt.Fprintln(os.Stderr, "usage: govc check|list|dump ...")
		os.Exit(2)
	}
	switch os.Args[1] {
	case "check":
		os.Exit(cmdCheck(os.Args[2:]))
	case "dump":
		os.Exit(cmdDump(os.Args[2:]))
	case "replay":
		os.Exit(cmdReplay(os.Args[2:]))
	default:
		fmt.Fprintln(os.Stderr, "unknown command", os.Args[1])
		os.Exit(2)
	}
}

func toolError(format string, a ...any) int {
	fmt.Fprintf(os.Stderr, "govc: TOOL ERROR: "+format+"\n", a...)
	return 2
}

func obligServes(o *Oblig, prop string) bool {
	for _, p := range o.Props {
		if p == prop {
			return true
		}
	}
	return false
}

func cmdCheck(args []string) int {
	fs := flag.NewFlagSet("check", flag.ExitOnError)
	prop := fs.String("property", "", "property id")
	tier := fs.String("tier", "", "quick|thorough")
	repo := fs.String("repo", "/repo", "repository")
	verbose := fs.Bool("v", false, "verbose")
	onlyFn := fs.String("func", "", "only functions containing this substring")
	noEvidence := fs.Bool("noevidence", false, "do not write the evidence file or replay files (self-test runs on changed copies)")
	fs.Parse(args)
	if *noEvidence {
		replayRoot = filepath.Join(verifDir, "out", "selftest-replays")
	}
	if *tier == "" {
		*tier = os.Getenv("VERIF_TIER")
	}
	if *tier == "" {
		*tier = "quick"
	}
	seed := 0
	if s := os.Getenv("VERIF_SEED"); s != "" {
		seed, _ = strconv.Atoi(s)
	}
	if *prop == "" {
		return toolError("need -property")
	}
	if os.Getenv("GOVC_FOREIGN_AUDIT") != "" {
		auditProp = *prop
		defer func() {
			var ks []string
			for k, n := range auditSkipped {
				ks = append(ks, fmt.Sprintf("%s (x%d)", k, n))
			}
			sort.Strings(ks)
			fmt.Fprintf(os.Stderr, "AUDIT: %d foreign callee clauses were not assumed:\n  %s\n", len(ks), strings.Join(ks, "\n  "))
		}()
	}
	t0 := time.Now()
	w, err := loadWorld(*repo, specsDir())
	if err != nil {
		return toolError("%v", err)
	}
	tLoad := time.Since(t0)
	// functions under contract serving the property
	type fuc struct {
		fn *ssa.Function
		c  *Contract
	}
	var fucs []fuc
	for fn, c := range w.ContractOf {
		if c.Trusted || c.NoBody || c.Pkg == "" {
			continue
		}
		serves := c.servesProp(*prop)
		if !serves {
			for _, cl := range c.Ensures {
				if clauseServes(cl, c, *prop) {
					serves = true
				}
			}
			for _, ls := range c.Loops {
				for _, cl := range ls.Invariants {
					if clauseServes(cl, c, *prop) {
						serves = true
					}
				}
			}
		}
		if !serves {
			continue
		}
		if *onlyFn != "" && !strings.Contains(shortFuncName(fn), *onlyFn) {
			continue
		}
		fucs = append(fucs, fuc{fn, c})
	}
	sort.Slice(fucs, func(i, j int) bool { return shortFuncName(fucs[i].fn) < shortFuncName(fucs[j].fn) })
	var all []*Oblig
	assump := map[string]bool{}
	trusted := map[string]bool{}
	unknown := map[string]bool{}
	var fnames []string
	pathCount := 0
	for _, f := range fucs {
		r := w.verifyFunc(f.fn, f.c)
		if len(r.errs) > 0 {
			// The contracts of this function cannot be evaluated on the current code (a field, local,
			// loop or callee they mention is gone, or the code uses a construct outside the subset).
			// A check that stops with a tool error decides nothing, so this is a failed obligation:
			// whatever the contracts proved about this function is no longer proved.
			msg := strings.Join(r.errs, "; ")
			o := &Oblig{Name: shortFuncName(f.fn) + "/contract.not_checkable", Kind: "unstatable", Func: shortFuncName(f.fn), Props: f.c.Serves,
				Goal: "false", Run: r, Desc: "the contracts of this function cannot be stated on the current code: " + msg,
				NoSolve: "contracts not evaluable: " + msg}
			r.Obligs = append(r.Obligs, o)
		}
		fnames = append(fnames, shortFuncName(f.fn))
		pathCount += r.paths
		for _, o := range r.Obligs {
			if obligServes(o, *prop) {
				all = append(all, o)
			}
		}
		for k := range r.Assump {
			assump[k] = true
		}
		for k := range r.Trusted {
			trusted[k] = true
		}
		for k := range r.Unknown {
			unknown[k] = true
		}
	}
	for _, ub := range w.Unbound {
		serves := ub.c.servesProp(*prop)
		for _, cl := range ub.c.Ensures {
			if clauseServes(cl, ub.c, *prop) {
				serves = true
			}
		}
		if !serves {
			continue
		}
		name := ub.c.Pkg[strings.LastIndex(ub.c.Pkg, "/")+1:] + "." + ub.c.Key
		all = append(all, &Oblig{Name: name + "/contract.not_checkable", Kind: "unstatable", Func: name, Props: []string{*prop},
			Goal: "false", Desc: "the function this contract was written for is gone or has another signature: " + ub.msg,
			NoSolve: "contract target missing: " + ub.msg})
	}
	// lemmas, const checks, struct checks
	extra, xerr := w.extraObligations(*prop)
	if xerr != nil {
		return toolError("%v", xerr)
	}
	all = append(all, extra...)
	structRes, serr := w.runStructChecks(*prop)
	if serr != nil {
		return toolError("%v", serr)
	}
	if n := len(w.TagNames); n != w.tagsAtLoad {
		// the dynamic-type table must be complete before verification starts
		return toolError("dynamic-type table grew during verification (%d -> %d): %v (pre-registration incomplete)", w.tagsAtLoad, n, w.TagNames[w.tagsAtLoad:])
	}
	tGen := time.Since(t0) - tLoad
	if len(all) == 0 && len(structRes) == 0 {
		return toolError("no obligations generated for %s (vacuity guard)", *prop)
	}
	sv := newSolver(filepath.Join(verifDir, "out", "smt", *prop), *tier, seed)
	knownPre := loadKnown()
	for _, o := range all {
		for _, k := range knownPre.Findings {
			if k.Property == *prop && k.Obligation == o.Name && k.Status != "fixed" {
				o.quickOnly = true // a listed finding is re-checked with a short budget only
				o.noSplit = true
			}
		}
	}
	sv.solveAll(all, runtime.NumCPU())
	// aggregate
	agg := map[string]*aggOblig{}
	var names []string
	for _, o := range all {
		a := agg[o.Name]
		if a == nil {
			a = &aggOblig{Name: o.Name, Kind: o.Kind, Func: o.Func}
			agg[o.Name] = a
			names = append(names, o.Name)
		}
		a.Instances = append(a.Instances, o)
	}
	sort.Strings(names)
	known := loadKnown()
	violations := 0
	discharged := 0
	total := 0
	var perOb []map[string]any
	var samples []any
	var knownHit []string
	os.MkdirAll(filepath.Join(replayRoot, *prop), 0o755)
	for _, n := range names {
		a := agg[n]
		ok := true
		solverSet := map[string]bool{}
		anyPathCover, anyReach := false, false
		for _, o := range a.Instances {
			a.TimeMS += o.TimeMS
			solverSet[o.Solver] = true
			if o.Cover && o.AnyPath {
				anyPathCover = true
				if o.Verdict != "unsat" {
					anyReach = true
				} else if a.Fail == nil {
					a.Fail = o
				}
				continue
			}
			if o.Cover {
				if o.Verdict == "unsat" {
					ok = false
					a.Fail = o
				}
				continue
			}
			if o.Verdict != "unsat" {
				ok = false
				if a.Fail == nil || (a.Fail.Verdict != "sat" && o.Verdict == "sat") {
					a.Fail = o
				}
			}
		}
		if anyPathCover {
			if anyReach {
				a.Fail = nil
			} else {
				ok = false
			}
		}
		var ss []string
		for s := range solverSet {
			ss = append(ss, s)
		}
		sort.Strings(ss)
		a.Solver = strings.Join(ss, ",")
		total++
		rec := map[string]any{"name": n, "kind": a.Kind, "paths": len(a.Instances), "solver": a.Solver, "time_ms": a.TimeMS}
		if ok {
			a.Verdict = "discharged"
			discharged++
			rec["verdict"] = "discharged"
			if *verbose {
				fmt.Printf("  ok   %s (%d paths, %s, %dms)\n", n, len(a.Instances), a.Solver, a.TimeMS)
			}
		} else {
			a.Verdict = "failed"
			rec["verdict"] = "failed:" + a.Fail.Verdict
			// known finding?
			var kf *KnownFinding
			for i := range known.Findings {
				k := &known.Findings[i]
				if k.Property == *prop && k.Obligation == n && k.Status != "fixed" {
					kf = k
				}
			}
			if kf != nil {
				fmt.Printf("KNOWN-FINDING: property=%s %s [%s] witness: %s\n", *prop, kf.What, n, kf.Witness)
				knownHit = append(knownHit, n)
				total-- // not counted among the obligations claimed
				rec["verdict"] = "known-finding"
			} else {
				violations++
				rp := writeReplay(w, *prop, a)
				suffix := ""
				if !rp.confirmed {
					suffix = " no-failing-input-found"
				}
				fmt.Printf("VIOLATION property=%s replay=%s%s\n", *prop, rp.path, suffix)
				fmt.Printf("  obligation %s failed (%s) at %s: %s\n", n, a.Fail.Verdict, a.Fail.Pos, a.Fail.Desc)
			}
		}
		perOb = append(perOb, rec)
	}
	for _, sr := range structRes {
		total++
		rec := map[string]any{"name": sr.Name, "kind": "struct", "solver": "ssa-structural", "detail": sr.Detail}
		if sr.OK {
			discharged++
			rec["verdict"] = "discharged"
			if *verbose {
				fmt.Printf("  ok   %s (structural)\n", sr.Name)
			}
		} else {
			rec["verdict"] = "failed"
			var kf *KnownFinding
			for i := range known.Findings {
				k := &known.Findings[i]
				if k.Property == *prop && k.Obligation == sr.Name && k.Status != "fixed" {
					kf = k
				}
			}
			if kf != nil {
				fmt.Printf("KNOWN-FINDING: property=%s %s [%s] witness: %s\n", *prop, kf.What, sr.Name, kf.Witness)
				knownHit = append(knownHit, sr.Name)
				total--
				rec["verdict"] = "known-finding"
			} else {
				violations++
				path := filepath.Join(replayRoot, *prop, sanitize(sr.Name)+".json")
				data, _ := json.MarshalIndent(map[string]any{"property": *prop, "obligation": sr.Name, "kind": "struct", "detail": sr.Detail, "failing_input": nil}, "", " ")
				os.WriteFile(path, data, 0o644)
				fmt.Printf("VIOLATION property=%s replay=%s no-failing-input-found\n", *prop, path)
				fmt.Printf("  structural obligation %s failed: %s\n", sr.Name, sr.Detail)
			}
		}
		perOb = append(perOb, rec)
	}
	// samples: a few obligations written out
	for i, n := range names {
		if i%max(1, len(names)/4) == 0 && len(samples) < 5 {
			o := agg[n].Instances[0]
			samples = append(samples, map[string]any{"obligation": n, "description": o.Desc, "position": o.Pos.String(), "goal_smt": trunc(o.Goal, 600), "path_blocks": o.Trace, "assumptions_on_path": o.PC.n0()})
		}
	}
	var tb []string
	tb = append(tb, "go/packages + go/ssa (x/tools v0.29.0) lowering of /repo's working tree", "govc VC generator (/verif/govc)", "SMT solvers: z3 5.1.0 (z3-new), cvc5 1.0.3, z3 4.8.12")
	for k := range trusted {
		tb = append(tb, "trusted spec: "+k)
	}
	sort.Strings(tb[3:])
	var as []string
	for k := range assump {
		as = append(as, k)
	}
	for k := range unknown {
		as = append(as, "unknown call (all heaps havoc'd, results unconstrained): "+k)
	}
	as = append(as, "nil-pointer dereference of receivers/pointer parameters is not checked", "out-of-memory, stack exhaustion and goroutine scheduling are outside the model",
		"Go integers are modelled exactly (wrap-around for unsigned, overflow obligation for signed); floating point is uninterpreted",
		"SMT solvers are trusted only in agreement: every `unsat` was produced by two configurations (two random seeds of one solver, or two of z3 5.1.0 / z3 4.8.12 / cvc5 1.0.3); an unsoundness reproduced by two configurations would go unnoticed (DESIGN 11.4 records three wrong single answers from z3 5.1.0)")
	as = append(as, w.propertyNotes(*prop)...)
	usedAxMu.Lock()
	for ax := range usedAxGlobal {
		where := "spec"
		if ax.Pkg != "" {
			where = "contract file of " + ax.Pkg[strings.LastIndex(ax.Pkg, "/")+1:]
		}
		as = append(as, "axiom ["+ax.Name+"] ("+where+", unchecked): "+trunc(ax.Src, 220))
	}
	usedAxMu.Unlock()
	for _, rl := range w.Specs.Relies {
		if strings.HasPrefix(rl, *prop+" ") || strings.HasPrefix(rl, "all ") {
			as = append(as, "assumed: "+strings.TrimSpace(rl[strings.Index(rl, " "):]))
		}
	}
	sort.Strings(as)
	wall := time.Since(t0).Seconds()
	ev := map[string]any{
		"property_id": *prop, "tier": *tier, "seed": seed, "level": "proof",
		"coverage": map[string]any{
			"obligations": total, "discharged": discharged,
			"checker_cmd":              fmt.Sprintf("/verif/bin/govc check -property %s -tier %s", *prop, *tier),
			"trusted_base":             tb,
			"functions_under_contract": fnames,
			"paths_explored":           pathCount,
			"solver_queries":           sv.queries,
			"solver_time_s":            float64(sv.totalMS) / 1000.0,
			"queries_by_solver":        sv.bySolver,
			"per_obligation":           perOb,
			"known_findings_hit":       knownHit,
			"undecided_clauses":        w.undecided(*prop),
			"bounded_checks":           []any{},
			"samples":                  samples,
			"load_s":                   tLoad.Seconds(), "vcgen_s": tGen.Seconds(),
		},
		"assumptions": as, "wall_s": wall, "violations": violations,
	}
	if !*noEvidence {
		os.MkdirAll(filepath.Join(verifDir, "evidence"), 0o755)
		data, _ := json.MarshalIndent(ev, "", " ")
		os.WriteFile(filepath.Join(verifDir, "evidence", *prop+".json"), data, 0o644)
	}
	fmt.Printf("%s: %d/%d obligations discharged over %d functions (%d paths, %d solver queries, %.1fs); %d known finding(s); %d violation(s)\n",
		*prop, discharged, total, len(fnames), pathCount, sv.queries, wall, len(knownHit), violations)
	if violations > 0 {
		return 1
	}
	return 0
}

func (p *pcNode) n0() int {
	if p == nil {
		return 0
	}
	return p.n
}

type replayInfo struct {
	path      string
	confirmed bool
}

func writeReplay(w *World, prop string, a *aggOblig) replayInfo {
	o := a.Fail
	path := filepath.Join(replayRoot, prop, sanitize(a.Name)+".json")
	model := map[string]string{}
	modelKind := ""
	if o.Verdict == "sat" {
		model = parseModel(o, o.Raw)
		modelKind = "model of the full query"
	} else if o.Relaxed != "" {
		model = parseModel(o, o.Relaxed)
		modelKind = "candidate from the relaxed query (quantified hypotheses dropped); valid only if the replay confirms it"
	}
	rec := map[string]any{
		"property": prop, "obligation": a.Name, "kind": a.Kind, "function": a.Func, "position": o.Pos.String(),
		"description": o.Desc, "clause": o.Clause, "verdict": o.Verdict, "solver_output": o.Raw,
		"path_blocks": o.Trace, "model_inputs": model, "model_kind": modelKind, "goal_smt": o.Goal,
	}
	confirmed := false
	if _, err := os.Stat(filepath.Join(verifDir, "replay", "adapters", sanitize(a.Func)+".go.tmpl")); len(model) > 0 || err == nil {
		if res := tryReplay(w, prop, a, model); res != nil {
			rec["replay"] = res
			if c, ok := res["confirmed"].(bool); ok && c {
				confirmed = true
			}
		}
	}
	if !confirmed {
		rec["failing_input"] = "no-failing-input-found"
	}
	data, _ := json.MarshalIndent(rec, "", " ")
	os.WriteFile(path, data, 0o644)
	// keep the failing query next to it
	os.WriteFile(strings.TrimSuffix(path, ".json")+".smt2", []byte(o.script(true)), 0o644)
	return replayInfo{path: path, confirmed: confirmed}
}

// parseModel extracts the get-value answers for the function inputs.
func parseModel(o *Oblig, raw string) map[string]string {
	out := map[string]string{}
	for name, term := range o.Inputs {
		if strings.HasPrefix(name, "str!") || strings.HasPrefix(name, "glob!") || strings.HasPrefix(name, "func!") {
			continue
		}
		// look for "(term value)"
		idx := strings.Index(raw, "("+term+" ")
		if idx < 0 {
			continue
		}
		rest := raw[idx+len(term)+2:]
		// value up to matching paren
		d := 0
		end := -1
		for i := 0; i < len(rest); i++ {
			if rest[i] == '(' {
				d++
			} else if rest[i] == ')' {
				if d == 0 {
					end = i
					break
				}
				d--
			}
		}
		if end > 0 {
			out[name] = strings.TrimSpace(rest[:end])
		}
	}
	return out
}

func cmdDump(args []string) int {
	fs := flag.NewFlagSet("dump", flag.ExitOnError)
	fn := fs.String("func", "", "function substring")
	name := fs.String("name", "", "obligation name substring")
	repo := fs.String("repo", "/repo", "repository")
	solve := fs.Bool("solve", false, "run solvers")
	show := fs.Bool("smt", false, "print SMT")
	split := fs.Bool("split", false, "split conjunctive goals of failing obligations and solve each conjunct")
	fs.Parse(args)
	w, err := loadWorld(*repo, specsDir())
	if err != nil {
		return toolError("%v", err)
	}
	for f, c := range w.ContractOf {
		if c.Trusted || c.NoBody || c.Pkg == "" || !strings.Contains(shortFuncName(f), *fn) {
			continue
		}
		r := w.verifyFunc(f, c)
		for _, e := range r.errs {
			fmt.Println("ERROR:", e)
		}
		fmt.Printf("== %s: %d obligation instances, %d paths\n", shortFuncName(f), len(r.Obligs), r.paths)
		var sel []*Oblig
		for _, o := range r.Obligs {
			if strings.Contains(o.Name, *name) {
				sel = append(sel, o)
			}
		}
		if *solve {
			sv := newSolver(filepath.Join(verifDir, "out", "smt", "dump"), "quick", 0)
			sv.solveAll(sel, runtime.NumCPU())
		}
		for _, o := range sel {
			fmt.Printf("%-8s %-70s %v %s  [%s %dms] %s\n", o.Verdict, o.Name, o.Trace, o.Pos, o.Solver, o.TimeMS, o.Desc)
			if *show {
				fmt.Println(o.script(true))
			}
			if *solve && o.Verdict != "unsat" && !o.Cover {
				fmt.Println("   model:", parseModel(o, o.Raw), "relaxed:", parseModel(o, o.Relaxed))
				if *split {
					for _, cj := range flattenAnd(o.Goal) {
						o2 := *o
						o2.Goal = cj
						sv2 := newSolver(filepath.Join(verifDir, "out", "smt", "dump"), "quick", 0)
						sv2.solve(&o2)
						fmt.Printf("      %-8s %s\n", o2.Verdict, trunc(cj, 300))
					}
				}
			}
		}
	}
	return 0
}

func cmdReplay(args []string) int {
	if len(args) < 1 {
		return toolError("replay <path>")
	}
	data, err := os.ReadFile(args[0])
	if err != nil {
		return toolError("%v", err)
	}
	fmt.Println(string(data))
	return 0
}

func flattenAnd(g string) []string {
	if strings.HasPrefix(g, "(and ") {
		var out []string
		for _, p := range splitSexp(g[5 : len(g)-1]) {
			out = append(out, flattenAnd(p)...)
		}
		return out
	}
	return []string{g}
}

func specsDir() string {
	if d := os.Getenv("GOVC_SPECS"); d != "" {
		return d
	}
	return filepath.Join(verifDir, "specs")
}

var replayRoot = filepath.Join(verifDir, "replays")
