package main

import (
	"context"
	"crypto/sha256"
	"encoding/hex"
	"fmt"
	"os"
	"os/exec"
	"path/filepath"
	"strings"
	"sync"
	"time"
)

type solverSpec struct {
	name string
	argv func(file string, timeoutS int, seed int) []string
}

var solvers = []solverSpec{
	{"z3-new-5.1.0", func(f string, t, seed int) []string {
		return []string{"z3-new", "-smt2", fmt.Sprintf("-T:%d", t), fmt.Sprintf("smt.random_seed=%d", seed), fmt.Sprintf("sat.random_seed=%d", seed), f}
	}},
	{"cvc5-1.0.3", func(f string, t, seed int) []string {
		return []string{"cvc5", "--lang", "smt2", fmt.Sprintf("--tlimit=%d", t*1000), fmt.Sprintf("--seed=%d", seed), f}
	}},
	{"z3-4.8.12", func(f string, t, seed int) []string {
		return []string{"z3", "-smt2", fmt.Sprintf("-T:%d", t), fmt.Sprintf("smt.random_seed=%d", seed), f}
	}},
}

type cacheEntry struct {
	done    chan struct{}
	res     solveResult
	relaxed string
}

type solveResult struct {
	verdict string
	solver  string
	ms      int64
	out     string
}

func runSolver(s solverSpec, file string, timeoutS, seed int) solveResult {
	return runSolverCtx(context.Background(), s, file, timeoutS, seed)
}

func runSolverCtx(parent context.Context, s solverSpec, file string, timeoutS, seed int) solveResult {
	ctx, cancel := context.WithTimeout(parent, time.Duration(timeoutS+3)*time.Second)
	defer cancel()
	argv := s.argv(file, timeoutS, seed)
	t0 := time.Now()
	cmd := exec.CommandContext(ctx, argv[0], argv[1:]...)
	out, _ := cmd.CombinedOutput()
	ms := time.Since(t0).Milliseconds()
	txt := string(out)
	// the verdict is the first line that is a verdict (cvc5 prints warnings before it)
	first := strings.TrimSpace(strings.SplitN(txt, "\n", 2)[0])
	for _, ln := range strings.Split(txt, "\n") {
		ln = strings.TrimSpace(ln)
		if ln == "unsat" || ln == "sat" || ln == "unknown" || ln == "timeout" {
			first = ln
			break
		}
	}
	v := "unknown"
	switch first {
	case "unsat":
		v = "unsat"
	case "sat":
		v = "sat"
	case "timeout":
		v = "timeout"
	default:
		if strings.Contains(first, "error") || strings.Contains(first, "Error") {
			v = "error"
		}
	}
	return solveResult{verdict: v, solver: s.name, ms: ms, out: txt}
}

type Solver struct {
	dir       string
	tier      string
	seed      int
	cache     sync.Map
	liteCache sync.Map
	mu        sync.Mutex
	totalMS   int64
	bySolver  map[string]int
	queries   int
}

func newSolver(dir, tier string, seed int) *Solver {
	os.MkdirAll(dir, 0o755)
	return &Solver{dir: dir, tier: tier, seed: seed, bySolver: map[string]int{}}
}

// splitGoal breaks a goal into conjuncts, also under implications:
// (=> a (and b c)) becomes (=> a b), (=> a c).
func splitGoal(g string) []string {
	if strings.HasPrefix(g, "(and ") {
		var out []string
		for _, p := range splitSexp(g[5 : len(g)-1]) {
			out = append(out, splitGoal(p)...)
		}
		return out
	}
	if strings.HasPrefix(g, "(=> ") {
		parts := splitSexp(g[4 : len(g)-1])
		if len(parts) == 2 {
			var out []string
			for _, c := range splitGoal(parts[1]) {
				out = append(out, sImp(parts[0], c))
			}
			return out
		}
	}
	return []string{g}
}

// solve decides one obligation instance.  Conjunctive goals are decided
// conjunct by conjunct (each is a smaller query); the obligation is
// discharged only if every conjunct is.
func (s *Solver) solve(o *Oblig) {
	if o.NoSolve != "" {
		o.Verdict, o.Solver, o.Raw = "unstatable", "none", o.NoSolve
		return
	}
	if !o.Cover && o.Goal == "true" {
		o.Verdict, o.Solver = "unsat", "syntactic"
		return
	}
	if !o.Cover && o.Goal == "false" {
		// an unreachability claim: the path hypotheses themselves must be refuted.  A single
		// solver run refuting a large hypothesis set has been observed to be unstable (not
		// reproducible under another seed or solver), so a refutation counts only when a
		// second, independent run confirms it.
		s.solveUnreachable(o)
		return
	}
	if !o.Cover && !o.noSplit {
		if parts := splitGoal(o.Goal); len(parts) > 1 {
			// first the whole goal with a short budget
			whole := *o
			whole.noSplit = true
			whole.quickOnly = true
			s.solve(&whole)
			if whole.Verdict == "unsat" || whole.Verdict == "sat" {
				o.Verdict, o.Solver, o.TimeMS, o.Raw, o.Relaxed = whole.Verdict, whole.Solver, whole.TimeMS, whole.Raw, whole.Relaxed
				return
			}
			o.TimeMS += whole.TimeMS
			solverSet := map[string]bool{}
			o.Verdict = "unsat"
			for _, p := range parts {
				sub := *o
				sub.Goal = p
				sub.noSplit = true
				s.solve(&sub)
				o.TimeMS += sub.TimeMS
				if os.Getenv("GOVC_SLOW") != "" && sub.TimeMS > 800 {
					fmt.Fprintf(os.Stderr, "slow conjunct %dms %s [%s] %v: %s\n", sub.TimeMS, o.Name, sub.Solver, o.Trace, trunc(p, 260))
				}
				solverSet[sub.Solver] = true
				if sub.Verdict != "unsat" {
					o.Verdict, o.Raw, o.Relaxed = sub.Verdict, "failing conjunct: "+trunc(p, 400)+"\n"+sub.Raw, sub.Relaxed
					o.FailGoal = p
					break
				}
			}
			var ss []string
			for k := range solverSet {
				ss = append(ss, k)
			}
			sortStrings(ss)
			o.Solver = strings.Join(ss, ",")
			return
		}
	}
	script := o.script(true)
	// stage 0: hypotheses restricted to the cone of influence of the goal (a
	// sound subset of the hypotheses), first with the length axioms only
	if !o.Cover && os.Getenv("GOVC_COI") != "" {
		for _, lite := range []bool{true, false} {
			cs := o.scriptCOI(lite)
			if cs == script {
				continue
			}
			hc := sha256.Sum256([]byte(cs))
			kc := hex.EncodeToString(hc[:12])
			if v, ok := s.liteCache.Load(kc); ok {
				if v.(bool) {
					o.Verdict, o.Solver = "unsat", solvers[0].name+"(coi)"
					return
				}
				continue
			}
			cf := filepath.Join(s.dir, kc+".coi.smt2")
			os.WriteFile(cf, []byte(cs), 0o644)
			budget := 2
			if !lite {
				budget = 4
			}
			cr := runSolver(solvers[0], cf, budget, s.seed)
			if os.Getenv("GOVC_KEEP_COI") == "" {
				os.Remove(cf)
			}
			s.mu.Lock()
			s.totalMS += cr.ms
			s.queries++
			s.mu.Unlock()
			s.liteCache.Store(kc, cr.verdict == "unsat")
			if cr.verdict == "unsat" {
				s.mu.Lock()
				s.bySolver[solvers[0].name+"(coi)"]++
				s.mu.Unlock()
				o.Verdict, o.Solver, o.TimeMS = "unsat", solvers[0].name+"(coi)", o.TimeMS+cr.ms
				return
			}
			o.TimeMS += cr.ms
		}
	}
	// stage A: length-only sequence axioms (a sound subset), short budget
	if !o.Cover && strings.Contains(script, "(declare-fun blen ") {
		lite := o.scriptLite()
		if lite != script {
			hl := sha256.Sum256([]byte(lite))
			kl := hex.EncodeToString(hl[:12])
			if v, ok := s.liteCache.Load(kl); ok {
				if v.(bool) {
					o.Verdict, o.Solver = "unsat", solvers[0].name+"(len-axioms)"
					return
				}
			} else {
				lf := filepath.Join(s.dir, kl+".lite.smt2")
				os.WriteFile(lf, []byte(lite), 0o644)
				lr := runSolver(solvers[0], lf, 2, s.seed)
				if lr.verdict == "unsat" {
					if ok, _ := s.confirmUnsat(lf, lr, s.seed, 6); !ok {
						lr.verdict = "unknown"
					}
				}
				os.Remove(lf)
				s.mu.Lock()
				s.totalMS += lr.ms
				s.queries++
				s.mu.Unlock()
				s.liteCache.Store(kl, lr.verdict == "unsat")
				if lr.verdict == "unsat" {
					s.mu.Lock()
					s.bySolver[solvers[0].name+"(len-axioms)"]++
					s.mu.Unlock()
					o.Verdict, o.Solver, o.TimeMS = "unsat", solvers[0].name+"(len-axioms)", lr.ms
					return
				}
			}
		}
	}
	h := sha256.Sum256([]byte(script))
	key := hex.EncodeToString(h[:12])
	ent := &cacheEntry{done: make(chan struct{})}
	if v, loaded := s.cache.LoadOrStore(key, ent); loaded {
		e := v.(*cacheEntry)
		<-e.done
		o.Verdict, o.Solver, o.TimeMS, o.Raw, o.Relaxed = e.res.verdict, e.res.solver, 0, e.res.out, e.relaxed
		return
	}
	defer close(ent.done)
	file := filepath.Join(s.dir, key+".smt2")
	os.WriteFile(file, []byte(script), 0o644)
	t1, t2 := 6, 20
	if s.tier == "thorough" {
		t1, t2 = 20, 90
	}
	var res solveResult
	var all []solveResult
	if o.Cover {
		// vacuity guard: the hypotheses must not be refutable; proving them
		// satisfiable in the presence of quantified axioms is not attempted
		// beyond a short budget (unknown counts as not refuted)
		res = runSolver(solvers[0], file, 3, s.seed)
		all = append(all, res)
		if res.verdict == "unsat" {
			// a refutation of the hypotheses must be confirmed by a second solver before the
			// path is declared vacuous (a single unstable answer is recorded, not acted on)
			// (under ANOTHER random seed: z3 4.8 and z3 5.1 share code, and both have answered `unsat`
			// under one and the same seed on a query that no other seed refutes - DESIGN 11.4)
			confirmed := false
			type alt struct {
				sv   solverSpec
				seed int
			}
			// A genuine contradiction (11.6b: cores of four assertions) is refuted at once under every
			// seed; the spurious refutations seen come and go with the seed.  So: cvc5 agrees, or z3
			// refutes under two further seeds as well.
			z3More := 0
			for _, a := range []alt{{solvers[0], s.seed + 15485863}, {solvers[0], s.seed + 32452843}, {solvers[1], s.seed}} {
				r2 := runSolver(a.sv, file, 10, a.seed)
				r2.solver += fmt.Sprintf("(seed %d)", a.seed)
				all = append(all, r2)
				if r2.verdict != "unsat" {
					if a.sv.name == solvers[0].name {
						break // one z3 seed does not refute: not robust; cvc5 alone would not finish either
					}
					continue
				}
				if a.sv.name == solvers[1].name {
					confirmed = true
					break
				}
				z3More++
				if z3More == 2 {
					confirmed = true
					break
				}
			}
			if !confirmed {
				res.verdict = "sat"
				res.solver += "(refutation not confirmed by a second solver)"
			}
		} else {
			res.verdict = "sat"
		}
	} else if o.quickOnly {
		res = runSolver(solvers[0], file, 3, s.seed)
		all = append(all, res)
		if res.verdict == "unsat" {
			ok, more := s.confirmUnsat(file, res, s.seed, 6)
			all = append(all, more...)
			if !ok {
				res.verdict = "unconfirmed"
			}
		}
	} else {
		res = runSolver(solvers[0], file, t1, s.seed)
		all = append(all, res)
		if res.verdict == "unsat" {
			ok, more := s.confirmUnsat(file, res, s.seed, t2)
			all = append(all, more...)
			if !ok {
				res.verdict = "unconfirmed"
				res.solver += "(unsat not reproduced by any other seed or solver)"
			}
		}
	}
	if !o.quickOnly && !o.Cover && res.verdict != "unsat" && res.verdict != "sat" && res.verdict != "unconfirmed" {
		// fall back to the other two solvers and to the first one under other random seeds, in
		// parallel: quantifier instantiation is seed-sensitive, and any `unsat` is a proof
		altSeeds := []int{s.seed + 7919, s.seed + 104729, s.seed + 1299709}
		ch := make(chan solveResult, 4+len(altSeeds))
		pctx, pcancel := context.WithCancel(context.Background())
		for i, sv := range solvers[1:] {
			go func(sv solverSpec, sd int) { ch <- runSolverCtx(pctx, sv, file, t2, sd) }(sv, s.seed+i*86028121)
		}
		for _, sd := range altSeeds {
			go func(sd int) {
				r := runSolverCtx(pctx, solvers[0], file, t2, sd)
				r.solver += fmt.Sprintf("(seed %d)", sd)
				ch <- r
			}(sd)
		}
		// an `unsat` counts once a second configuration has produced it too (see confirmUnsat)
		var firstUnsat *solveResult
		needTwo := os.Getenv("GOVC_CONFIRM") != "off"
		extra := 0
		for i := 0; i < 2+len(altSeeds)+extra; i++ {
			r := <-ch
			all = append(all, r)
			if r.verdict == "sat" {
				res = r
				break
			}
			if r.verdict == "unsat" {
				if firstUnsat == nil && needTwo {
					rc := r
					firstUnsat = &rc
					// the configuration that found it, under two more seeds
					for _, sv := range solvers {
						if strings.HasPrefix(r.solver, sv.name) {
							for _, d := range []int{15485863, 32452843} {
								extra++
								go func(sv solverSpec, sd int) {
									x := runSolverCtx(pctx, sv, file, t2, sd)
									x.solver += fmt.Sprintf("(seed %d)", sd)
									ch <- x
								}(sv, s.seed+d)
							}
						}
					}
					continue
				}
				res = r
				if firstUnsat != nil {
					res.solver = firstUnsat.solver + "+" + r.solver
				}
				break // the remaining runs are cancelled
			}
		}
		pcancel()
		if res.verdict != "unsat" && res.verdict != "sat" && firstUnsat != nil {
			if os.Getenv("GOVC_CONFIRM") == "record" {
				fmt.Fprintf(os.Stderr, "UNCONFIRMED(record) %s first=%s %dms (fallback)\n", file, firstUnsat.solver, firstUnsat.ms)
				res = *firstUnsat
			} else {
				res = *firstUnsat
				res.verdict = "unconfirmed"
				res.solver += "(unsat not reproduced by any other seed or solver)"
			}
		}
	}
	if s.tier == "thorough" && res.verdict == "unsat" && !o.Cover {
		// require a second, independent solver to agree (best effort: an
		// `unknown` from the second solver is recorded, a `sat` is a conflict)
		for _, sv := range solvers {
			if sv.name == res.solver {
				continue
			}
			r := runSolver(sv, file, t1, s.seed)
			all = append(all, r)
			if r.verdict == "sat" {
				res = solveResult{verdict: "conflict", solver: res.solver + " vs " + r.solver, out: r.out}
			}
			if r.verdict == "unsat" {
				res.solver += "+" + r.solver
			}
			if r.verdict == "unsat" || r.verdict == "sat" {
				break
			}
		}
	}
	var raw strings.Builder
	var ms int64
	for _, r := range all {
		ms += r.ms
		fmt.Fprintf(&raw, "[%s %dms] %s\n", r.solver, r.ms, strings.TrimSpace(trunc(r.out, 1500)))
	}
	res.out = raw.String()
	res.ms = ms
	ent.res = res
	s.mu.Lock()
	s.totalMS += ms
	s.bySolver[res.solver]++
	s.queries++
	s.mu.Unlock()
	o.Verdict, o.Solver, o.TimeMS, o.Raw = res.verdict, res.solver, ms, res.out
	if res.verdict == "unsat" || (o.Cover && res.verdict == "sat") {
		os.Remove(file)
	}
	if !o.Cover && !o.quickOnly && res.verdict != "unsat" && res.verdict != "sat" {
		// candidate counterexample from the relaxed query (quantified
		// hypotheses dropped); it only counts if the replay confirms it
		rf := filepath.Join(s.dir, key+".relaxed.smt2")
		os.WriteFile(rf, []byte(o.scriptOpt(true, true)), 0o644)
		rr := runSolver(solvers[0], rf, t1, s.seed)
		if rr.verdict == "sat" {
			o.Relaxed = rr.out
			ent.relaxed = rr.out
		}
	}
}

// confirmUnsat re-runs a query that one solver run has answered `unsat` under a different
// configuration (another random seed of the same solver first, then the other solvers and seeds
// in parallel).  z3 5.1.0 has been observed to answer `unsat` on satisfiable queries of this
// shape (DESIGN 11.4: the answer disappears when any one of ~840 of 917 assertions is removed,
// and no other seed or solver reproduces it), so a single `unsat` is not taken as a proof.
func (s *Solver) confirmUnsat(file string, first solveResult, firstSeed int, budget int) (bool, []solveResult) {
	mode := os.Getenv("GOVC_CONFIRM")
	if mode == "off" {
		return true, nil
	}
	var all []solveResult
	b1 := int(first.ms/1000)*3 + 3
	if b1 > budget {
		b1 = budget
	}
	firstIsZ3new := strings.HasPrefix(first.solver, solvers[0].name)
	sd := s.seed
	if firstIsZ3new {
		sd = firstSeed + 15485863
	}
	r := runSolver(solvers[0], file, b1, sd)
	r.solver += fmt.Sprintf("(confirm, seed %d)", sd)
	all = append(all, r)
	if r.verdict == "unsat" {
		return true, all
	}
	type alt struct {
		sv   solverSpec
		seed int
	}
	alts := []alt{{solvers[1], s.seed}, {solvers[2], firstSeed + 86028121}, {solvers[0], firstSeed + 32452843}, {solvers[0], firstSeed + 49979687}}
	ch := make(chan solveResult, len(alts))
	pctx, pcancel := context.WithCancel(context.Background())
	defer pcancel()
	n := 0
	for _, a := range alts {
		if strings.HasPrefix(first.solver, a.sv.name) && a.sv.name != solvers[0].name {
			continue
		}
		n++
		go func(a alt) {
			r := runSolverCtx(pctx, a.sv, file, budget, a.seed)
			r.solver += fmt.Sprintf("(confirm, seed %d)", a.seed)
			ch <- r
		}(a)
	}
	ok := false
	for i := 0; i < n; i++ {
		r := <-ch
		all = append(all, r)
		if r.verdict == "unsat" {
			ok = true
			break
		}
	}
	if !ok && mode == "record" {
		fmt.Fprintf(os.Stderr, "UNCONFIRMED(record) %s first=%s %dms\n", file, first.solver, first.ms)
		return true, all
	}
	return ok, all
}

func (s *Solver) solveAll(obs []*Oblig, workers int) {
	var wg sync.WaitGroup
	ch := make(chan *Oblig)
	for i := 0; i < workers; i++ {
		wg.Add(1)
		go func() {
			defer wg.Done()
			for o := range ch {
				s.solve(o)
			}
		}()
	}
	for _, o := range obs {
		ch <- o
	}
	close(ch)
	wg.Wait()
}

func (s *Solver) solveUnreachable(o *Oblig) {
	script := o.script(true)
	h := sha256.Sum256([]byte(script))
	file := filepath.Join(s.dir, hex.EncodeToString(h[:12])+".unreach.smt2")
	os.WriteFile(file, []byte(script), 0o644)
	defer os.Remove(file)
	first := runSolver(solvers[0], file, 6, s.seed)
	raw := fmt.Sprintf("[%s %dms] %s\n", first.solver, first.ms, strings.TrimSpace(trunc(first.out, 300)))
	ms := first.ms
	nq := 1
	verdict, by := first.verdict, first.solver
	if first.verdict == "unsat" {
		confirmed := false
		type alt struct {
			sv   solverSpec
			seed int
		}
		alts := []alt{{solvers[0], s.seed + 7919}, {solvers[1], s.seed}, {solvers[2], s.seed + 86028121}, {solvers[0], s.seed + 104729}}
		for _, a := range alts {
			r := runSolver(a.sv, file, 10, a.seed)
			nq++
			ms += r.ms
			raw += fmt.Sprintf("[%s seed %d %dms] %s\n", r.solver, a.seed, r.ms, strings.TrimSpace(trunc(r.out, 200)))
			if r.verdict == "unsat" {
				confirmed = true
				by += "+" + r.solver
				break
			}
		}
		if !confirmed {
			verdict = "unknown"
			raw += "refutation of the path hypotheses was not confirmed by a second solver run; the path counts as reachable\n"
		}
	}
	s.mu.Lock()
	s.totalMS += ms
	s.queries += nq
	if verdict == "unsat" {
		s.bySolver[by]++
	}
	s.mu.Unlock()
	o.Verdict, o.Solver, o.TimeMS, o.Raw = verdict, by, ms, raw
}
