package main

// Forward symbolic execution of go/ssa between cut points.

import (
	"crypto/sha256"
	"encoding/hex"
	"fmt"
	"go/constant"
	"go/token"
	"go/types"
	"sort"
	"strings"

	"golang.org/x/tools/go/ssa"
)

type pcNode struct {
	prev *pcNode
	s    string
	n    int
}

func (p *pcNode) add(s string) *pcNode {
	if s == "true" {
		return p
	}
	n := 1
	if p != nil {
		n = p.n + 1
	}
	return &pcNode{prev: p, s: s, n: n}
}

func (p *pcNode) list() []string {
	var out []string
	for q := p; q != nil; q = q.prev {
		out = append(out, q.s)
	}
	for i, j := 0, len(out)-1; i < j; i, j = i+1, j-1 {
		out[i], out[j] = out[j], out[i]
	}
	return out
}

type Oblig struct {
	Name    string
	Kind    string
	Func    string
	Props   []string
	Goal    string
	PC      *pcNode
	NDecl   int // number of run declarations visible
	Run     *FnRun
	Pos     token.Position
	Desc    string
	Clause  string
	Trace   []int
	Cover   bool // cover query: expected SAT (vacuity guard)
	AnyPath bool // cover passes if any path instance is not refuted
	// results
	Verdict   string // unsat (discharged), sat, unknown
	Solver    string
	TimeMS    int64
	Model     string
	noSplit   bool
	coi       bool
	lite      bool
	NoSolve   string
	quickOnly bool
	FailGoal  string
	Relaxed   string // solver output of the relaxed query (candidate model)
	Raw       string
	Inputs    map[string]string // name -> SMT term of function inputs (for replay)
}

type loopCut struct {
	measures []string
	spec     *LoopSpec
	ord      int
}

type deferred struct {
	call  *ssa.CallCommon
	args  []Val
	fn    Val // closure / func value if any
	instr *ssa.Defer
}

type State struct {
	vals     map[ssa.Value]Val
	heap     map[string]string
	alloc    string
	pc       *pcNode
	ghost    map[string]Val
	defers   []deferred
	cuts     map[*ssa.BasicBlock]*loopCut
	visits   map[*ssa.BasicBlock]int
	trace    []int
	results  []Val // set at return
	inl      *inlineFrame
	panicked bool
	memo     map[string]Val
	// a panic is being unwound on this path: deferred calls run, recover() returns non-nil
	recovering bool
	recovered  bool
}

type inlineFrame struct {
	fn      *ssa.Function
	parent  *inlineFrame
	retCont func(st *State, results []Val)
	depth   int
	prefix  string
	defers0 int
}

func (st *State) clone() *State {
	n := &State{vals: make(map[ssa.Value]Val, len(st.vals)+8), heap: map[string]string{}, alloc: st.alloc, pc: st.pc,
		ghost: map[string]Val{}, cuts: map[*ssa.BasicBlock]*loopCut{}, visits: map[*ssa.BasicBlock]int{}, inl: st.inl}
	for k, v := range st.vals {
		n.vals[k] = v
	}
	for k, v := range st.heap {
		n.heap[k] = v
	}
	for k, v := range st.ghost {
		n.ghost[k] = v
	}
	for k, v := range st.cuts {
		n.cuts[k] = v
	}
	for k, v := range st.visits {
		n.visits[k] = v
	}
	n.memo = make(map[string]Val, len(st.memo))
	for k, v := range st.memo {
		n.memo[k] = v
	}
	n.defers = append([]deferred(nil), st.defers...)
	n.trace = append([]int(nil), st.trace...)
	n.recovering, n.recovered = st.recovering, st.recovered
	return n
}

var heapKinds = []string{"I", "B", "R", "S", "A"}

func heapSort(k string) string {
	switch k {
	case "I":
		return "(Array Ref Int)"
	case "B":
		return "(Array Ref Bool)"
	case "R":
		return "(Array Ref Ref)"
	case "S":
		return "(Array Ref BSeq)"
	case "A":
		return "(Array Ref (Array Int Int))"
	}
	panic(k)
}

// FnRun is the verification of one function body against its contract.
type FnRun struct {
	W           *World
	Fn          *ssa.Function
	C           *Contract
	decls       []string
	nfresh      int
	Obligs      []*Oblig
	ord         map[string]int // kind -> next ordinal
	siteOrd     map[ssa.Instruction]map[string]int
	loops       map[*ssa.BasicBlock]*loopInfo
	paths       int
	entry       *State // entry snapshot (for old())
	entryEnv    *Env
	frame       []modItem // evaluated at entry
	alloc0      string
	Assump      map[string]bool
	Unknown     map[string]bool
	Trusted     map[string]bool
	errs        []string
	inputs      map[string]string
	maxPaths    int
	globalFacts []string
	zeroRefs    []string
	litAxioms   map[string][]string
	noBind      int
	Props       []string
	inlineStack []*ssa.Function
	spans       map[*ssa.Function]map[ssa.Instruction]int
}

type loopInfo struct {
	header *ssa.BasicBlock
	blocks map[*ssa.BasicBlock]bool
	ord    int
	spec   *LoopSpec
	unroll int
}

func (r *FnRun) fresh(prefix, sort string) string {
	r.nfresh++
	prefix = sanitize(prefix)
	name := fmt.Sprintf("%s!%d", prefix, r.nfresh)
	r.decls = append(r.decls, fmt.Sprintf("(declare-const %s %s)", name, sort))
	return name
}

func sanitize(s string) string {
	var b strings.Builder
	for _, c := range s {
		if c >= 'a' && c <= 'z' || c >= 'A' && c <= 'Z' || c >= '0' && c <= '9' || c == '_' || c == '.' {
			b.WriteRune(c)
		} else {
			b.WriteByte('_')
		}
	}
	if b.Len() == 0 {
		return "v"
	}
	return b.String()
}

func (r *FnRun) errorf(format string, a ...any) {
	r.errs = append(r.errs, fmt.Sprintf(format, a...))
}

func (st *State) assume(s string) {
	// conjunctions are added conjunct by conjunct (relevance pruning works per assertion)
	if strings.HasPrefix(s, "(and ") {
		for _, p := range splitSexp(s[5 : len(s)-1]) {
			st.assume(p)
		}
		return
	}
	st.pc = st.pc.add(s)
}

// freshVal creates an unconstrained value of Go type t (with type-range and
// well-formedness assumptions added to st).
func (r *FnRun) freshVal(st *State, t types.Type, hint string) Val {
	switch kindOf(t) {
	case KInt:
		v := r.fresh(hint, "Int")
		st.assume(rangeAssume(v, t))
		return intVal(v, t)
	case KBool:
		return Val{K: KBool, S: r.fresh(hint, "Bool"), T: t}
	case KRef:
		v := r.fresh(hint, "Ref")
		st.assume(sx("<", sx("rootid", v), st.alloc))
		st.assume(sNot(sx("(_ is ibox)", v)))
		st.assume(sNot(sEq(sx("rootref", v), ghostRoot)))
		r.assumeTy(st, v, t)
		return refVal(v, t)
	case KOpaque:
		return Val{K: KOpaque, S: r.fresh(hint, "Ref"), T: t}
	case KSeq:
		sv := r.fresh(hint, "BSeq")
		if t != nil {
			// a Go string value lives in memory: its length is an int
			st.assume(sx("<=", sx("blen", sv), "9223372036854775807"))
		}
		return Val{K: KSeq, S: sv, T: t}
	case KArr:
		return Val{K: KArr, S: r.fresh(hint, "(Array Int Int)"), T: t}
	case KSlice:
		b := r.fresh(hint+".b", "Ref")
		o := r.fresh(hint+".o", "Int")
		l := r.fresh(hint+".l", "Int")
		c := r.fresh(hint+".c", "Int")
		st.assume(sAnd(sx("<=", "0", o), sx("<=", "0", l), sx("<=", l, c), sx("<=", c, "9223372036854775807"), sx("<", sx("rootid", b), st.alloc)))
		st.assume(sImp(sEq(b, "null"), sEq(c, "0")))
		st.assume(sNot(sx("(_ is ibox)", b)))
		st.assume(sOr(sEq(b, "null"), sx("<=", sx("+", o, c), sx("alen", b))))
		st.assume(sOr(sEq(b, "null"), sAnd(sEq(sx("elty", b), fmt.Sprint(r.W.eltyFor(t.Underlying().(*types.Slice).Elem()))), sNot(sEq(sx("rootref", b), ghostRoot)))))
		if kindOf(t.Underlying().(*types.Slice).Elem()) == KInt {
			// backing arrays of scalar slices are whole objects or array-typed fields, not elements of
			// another array (no arrays of arrays of scalars reach the functions under contract)
			st.assume(sNot(sx("(_ is elt)", b)))
		}
		return Val{K: KSlice, T: t, Bas: b, Off: o, Len: l, Cap: c}
	case KIface:
		tg := r.fresh(hint+".t", "Int")
		p := r.fresh(hint+".p", "Ref")
		st.assume(sAnd(sx("<=", "0", tg), sx("<", sx("rootid", p), st.alloc)))
		st.assume(sImp(sEq(tg, "0"), sEq(p, "null")))
		r.assumeIface(st, tg, p, t)
		return Val{K: KIface, T: t, Tag: tg, Pay: p}
	case KStruct:
		s := t.Underlying().(*types.Struct)
		v := Val{K: KStruct, T: t}
		for i := 0; i < s.NumFields(); i++ {
			v.Fs = append(v.Fs, r.freshVal(st, s.Field(i).Type(), hint+"."+s.Field(i).Name()))
		}
		for _, gf := range r.W.ghostFieldsOf(t) {
			k, _ := sortKind(gf.Sort)
			v.Fs = append(v.Fs, Val{K: k, S: r.fresh(hint+"."+gf.Name, smtSort(gf.Sort))})
		}
		return v
	case KTuple:
		tu := t.Underlying().(*types.Tuple)
		v := Val{K: KTuple, T: t}
		for i := 0; i < tu.Len(); i++ {
			v.Fs = append(v.Fs, r.freshVal(st, tu.At(i).Type(), fmt.Sprintf("%s.%d", hint, i)))
		}
		return v
	case KUnit:
		return unitVal()
	}
	panic("freshVal: " + t.String())
}

func zeroVal(t types.Type) Val {
	switch kindOf(t) {
	case KInt:
		return intVal("0", t)
	case KBool:
		return Val{K: KBool, S: "false", T: t}
	case KRef:
		return refVal("null", t)
	case KOpaque:
		return Val{K: KOpaque, S: "null", T: t}
	case KSeq:
		return Val{K: KSeq, S: "bempty", T: t}
	case KArr:
		return Val{K: KArr, S: "((as const (Array Int Int)) 0)", T: t}
	case KSlice:
		return nilSlice(t)
	case KIface:
		return nilIface(t)
	case KStruct:
		s := t.Underlying().(*types.Struct)
		v := Val{K: KStruct, T: t}
		for i := 0; i < s.NumFields(); i++ {
			v.Fs = append(v.Fs, zeroVal(s.Field(i).Type()))
		}
		return v
	case KTuple:
		tu := t.Underlying().(*types.Tuple)
		v := Val{K: KTuple, T: t}
		for i := 0; i < tu.Len(); i++ {
			v.Fs = append(v.Fs, zeroVal(tu.At(i).Type()))
		}
		return v
	}
	return unitVal()
}

// ---------- memory ----------

func isEltTerm(p string) (base, idx string, ok bool) {
	if !strings.HasPrefix(p, "(elt ") {
		return "", "", false
	}
	inner := p[5 : len(p)-1]
	parts := splitSexp(inner)
	if len(parts) != 2 {
		return "", "", false
	}
	return parts[0], parts[1], true
}

func splitSexp(s string) []string {
	var out []string
	d := 0
	start := -1
	for i := 0; i < len(s); i++ {
		c := s[i]
		switch {
		case c == '(':
			if d == 0 && start < 0 {
				start = i
			}
			d++
		case c == ')':
			d--
			if d == 0 {
				out = append(out, s[start:i+1])
				start = -1
			}
		case c == ' ':
			if d == 0 && start >= 0 {
				out = append(out, s[start:i])
				start = -1
			}
		default:
			if start < 0 {
				start = i
			}
		}
	}
	if start >= 0 {
		out = append(out, s[start:])
	}
	return out
}

func definitelyNotElt(p string) bool {
	return strings.HasPrefix(p, "(fld ") || strings.HasPrefix(p, "(obj ") || p == "null"
}

func (r *FnRun) loadInt(st *State, p string) string {
	if b, i, ok := isEltTerm(p); ok {
		return sx("select", sx("select", st.heap["A"], b), i)
	}
	if definitelyNotElt(p) {
		return sx("select", st.heap["I"], p)
	}
	return sx("ite", sx("(_ is elt)", p), sx("select", sx("select", st.heap["A"], sx("ebase", p)), sx("eidx", p)), sx("select", st.heap["I"], p))
}

func (r *FnRun) bind(st *State, term, hint, sort string) string {
	if r.noBind > 0 || len(term) < 24 && !strings.Contains(term, "select") {
		return term
	}
	v := r.fresh(hint, sort)
	st.assume(sEq(v, term))
	return v
}

func (r *FnRun) load(st *State, p string, t types.Type, hint string) Val {
	if r.noBind == 0 && st.memo != nil {
		key := p + "|" + types.TypeString(t, nil) + "|" + st.heap["I"] + st.heap["B"] + st.heap["R"] + st.heap["S"] + st.heap["A"]
		if v, ok := st.memo[key]; ok {
			return v
		}
		v := r.load1(st, p, t, hint)
		st.memo[key] = v
		return v
	}
	return r.load1(st, p, t, hint)
}

func (r *FnRun) load1(st *State, p string, t types.Type, hint string) Val {
	switch kindOf(t) {
	case KInt:
		v := r.bind(st, r.loadInt(st, p), hint, "Int")
		st.assume(rangeAssume(v, t))
		return intVal(v, t)
	case KBool:
		return Val{K: KBool, T: t, S: r.bind(st, sx("select", st.heap["B"], p), hint, "Bool")}
	case KRef:
		v := r.bind(st, sx("select", st.heap["R"], p), hint, "Ref")
		st.assume(sx("<", sx("rootid", v), st.alloc))
		st.assume(sNot(sEq(sx("rootref", v), ghostRoot)))
		r.assumeTy(st, v, t)
		return refVal(v, t)
	case KOpaque:
		return Val{K: KOpaque, T: t, S: r.bind(st, sx("select", st.heap["R"], p), hint, "Ref")}
	case KSeq:
		sv := r.bind(st, sx("select", st.heap["S"], p), hint, "BSeq")
		if t != nil {
			st.assume(sx("<=", sx("blen", sv), "9223372036854775807"))
		}
		return Val{K: KSeq, T: t, S: sv}
	case KArr:
		return Val{K: KArr, T: t, S: r.bind(st, sx("select", st.heap["A"], p), hint, "(Array Int Int)")}
	case KSlice:
		b := r.bind(st, sx("select", st.heap["R"], sx("fld", p, "0")), hint+".b", "Ref")
		o := r.bind(st, sx("select", st.heap["I"], sx("fld", p, "1")), hint+".o", "Int")
		l := r.bind(st, sx("select", st.heap["I"], sx("fld", p, "2")), hint+".l", "Int")
		c := r.bind(st, sx("select", st.heap["I"], sx("fld", p, "3")), hint+".c", "Int")
		st.assume(sAnd(sx("<=", "0", o), sx("<=", "0", l), sx("<=", l, c), sx("<=", c, "9223372036854775807"), sx("<", sx("rootid", b), st.alloc)))
		st.assume(sImp(sEq(b, "null"), sEq(c, "0")))
		st.assume(sOr(sEq(b, "null"), sx("<=", sx("+", o, c), sx("alen", b))))
		st.assume(sOr(sEq(b, "null"), sAnd(sEq(sx("elty", b), fmt.Sprint(r.W.eltyFor(t.Underlying().(*types.Slice).Elem()))), sNot(sEq(sx("rootref", b), ghostRoot)))))
		if kindOf(t.Underlying().(*types.Slice).Elem()) == KInt {
			// backing arrays of scalar slices are whole objects or array-typed fields, not elements of
			// another array (no arrays of arrays of scalars reach the functions under contract)
			st.assume(sNot(sx("(_ is elt)", b)))
		}
		return Val{K: KSlice, T: t, Bas: b, Off: o, Len: l, Cap: c}
	case KIface:
		tg := r.bind(st, sx("select", st.heap["I"], sx("fld", p, "0")), hint+".t", "Int")
		pl := r.bind(st, sx("select", st.heap["R"], sx("fld", p, "1")), hint+".p", "Ref")
		st.assume(sAnd(sx("<=", "0", tg), sx("<", sx("rootid", pl), st.alloc)))
		st.assume(sImp(sEq(tg, "0"), sEq(pl, "null")))
		r.assumeIface(st, tg, pl, t)
		return Val{K: KIface, T: t, Tag: tg, Pay: pl}
	case KStruct:
		s := t.Underlying().(*types.Struct)
		v := Val{K: KStruct, T: t}
		for i := 0; i < s.NumFields(); i++ {
			v.Fs = append(v.Fs, r.load(st, sx("fld", p, fmt.Sprint(i)), s.Field(i).Type(), hint+"."+s.Field(i).Name()))
		}
		// ghost fields of the type are part of the value
		for _, gf := range r.W.ghostFieldsOf(t) {
			cell := sx("fld", p, fmt.Sprint(gf.ID))
			switch gf.Sort {
			case "Int":
				v.Fs = append(v.Fs, intVal(r.bind(st, sx("select", st.heap["I"], cell), gf.Name, "Int"), nil))
			case "Bool":
				v.Fs = append(v.Fs, boolVal(r.bind(st, sx("select", st.heap["B"], cell), gf.Name, "Bool")))
			case "Ref":
				v.Fs = append(v.Fs, refVal(r.bind(st, sx("select", st.heap["R"], cell), gf.Name, "Ref"), nil))
			case "BSeq":
				v.Fs = append(v.Fs, seqVal(r.bind(st, sx("select", st.heap["S"], cell), gf.Name, "BSeq")))
			}
		}
		return v
	}
	return unitVal()
}

func (r *FnRun) setHeap(st *State, k string, term string) {
	n := r.fresh("H"+k, heapSort(k))
	st.assume(sEq(n, term))
	st.heap[k] = n
}

func (r *FnRun) storeInt(st *State, p, v string) {
	if b, i, ok := isEltTerm(p); ok {
		a := st.heap["A"]
		r.setHeap(st, "A", sx("store", a, b, sx("store", sx("select", a, b), i, v)))
		return
	}
	if definitelyNotElt(p) {
		r.setHeap(st, "I", sx("store", st.heap["I"], p, v))
		return
	}
	a := st.heap["A"]
	isE := sx("(_ is elt)", p)
	r.setHeap(st, "A", sx("ite", isE, sx("store", a, sx("ebase", p), sx("store", sx("select", a, sx("ebase", p)), sx("eidx", p), v)), a))
	r.setHeap(st, "I", sx("ite", isE, st.heap["I"], sx("store", st.heap["I"], p, v)))
}

func (r *FnRun) store(st *State, p string, v Val) {
	switch v.K {
	case KInt:
		r.storeInt(st, p, v.S)
	case KBool:
		r.setHeap(st, "B", sx("store", st.heap["B"], p, v.S))
	case KRef, KOpaque:
		r.setHeap(st, "R", sx("store", st.heap["R"], p, v.S))
	case KSeq:
		r.setHeap(st, "S", sx("store", st.heap["S"], p, v.S))
	case KArr:
		r.setHeap(st, "A", sx("store", st.heap["A"], p, v.S))
	case KSlice:
		r.setHeap(st, "R", sx("store", st.heap["R"], sx("fld", p, "0"), v.Bas))
		h := st.heap["I"]
		h = sx("store", h, sx("fld", p, "1"), v.Off)
		h = sx("store", h, sx("fld", p, "2"), v.Len)
		h = sx("store", h, sx("fld", p, "3"), v.Cap)
		r.setHeap(st, "I", h)
	case KIface:
		r.setHeap(st, "I", sx("store", st.heap["I"], sx("fld", p, "0"), v.Tag))
		r.setHeap(st, "R", sx("store", st.heap["R"], sx("fld", p, "1"), v.Pay))
	case KStruct:
		nf := len(v.Fs)
		if s, ok := v.T.Underlying().(*types.Struct); ok && v.T != nil {
			nf = s.NumFields()
		}
		for i, f := range v.Fs {
			if i < nf {
				r.store(st, sx("fld", p, fmt.Sprint(i)), f)
			}
		}
		if v.T != nil {
			for k, gf := range r.W.ghostFieldsOf(v.T) {
				if nf+k < len(v.Fs) {
					r.store(st, sx("fld", p, fmt.Sprint(gf.ID)), v.Fs[nf+k])
				}
			}
		}
	}
}

func (r *FnRun) allocObj(st *State, hint string) string {
	id := r.fresh("new."+hint, "Int")
	st.assume(sEq(id, st.alloc))
	na := r.fresh("alloc", "Int")
	st.assume(sEq(na, sx("+", st.alloc, "1")))
	st.alloc = na
	return sx("obj", id)
}

// ---------- obligations ----------

func (r *FnRun) shortFn() string {
	return shortFuncName(r.Fn)
}

func shortFuncName(fn *ssa.Function) string {
	pkg := ""
	var tp *types.Package
	if fn.Pkg != nil {
		pkg = fn.Pkg.Pkg.Name()
		tp = fn.Pkg.Pkg
	} else if fn.Parent() != nil && fn.Parent().Pkg != nil {
		pkg = fn.Parent().Pkg.Pkg.Name()
		tp = fn.Parent().Pkg.Pkg
	}
	return pkg + "." + fn.RelString(tp)
}

func (r *FnRun) oblig(st *State, kind, label string, site ssa.Instruction, goal, desc string, props []string) *Oblig {
	if goal == "true" {
		// trivially valid; still counted (as discharged syntactically)
	}
	key := kind
	if label != "" {
		key += "." + label
	}
	pref := ""
	if st.inl != nil {
		pref = st.inl.prefix
	}
	// ordinal by site within function
	ordKey := pref + key
	var n int
	if site != nil {
		m := r.siteOrd[site]
		if m == nil {
			m = map[string]int{}
			r.siteOrd[site] = m
		}
		if k, ok := m[ordKey]; ok {
			n = k
		} else {
			r.ord[ordKey]++
			n = r.ord[ordKey]
			m[ordKey] = n
		}
	} else {
		n = 0
	}
	name := r.shortFn() + "/" + pref + key
	if site != nil && (label == "" || kind == "pre" || strings.HasPrefix(kind, "safe") || kind == "frame") {
		name += fmt.Sprintf("#%d", n)
	}
	o := &Oblig{Name: name, Kind: kind, Func: r.shortFn(), Goal: goal, PC: st.pc, NDecl: len(r.decls), Run: r, Desc: desc,
		Trace: append([]int(nil), st.trace...), Props: props, Inputs: r.inputs}
	if site != nil {
		o.Pos = r.W.Prog.Fset.Position(site.Pos())
		if !o.Pos.IsValid() {
			// fall back to any positioned operand
			for _, op := range site.Operands(nil) {
				if *op != nil && (*op).Pos().IsValid() {
					o.Pos = r.W.Prog.Fset.Position((*op).Pos())
					break
				}
			}
		}
	}
	r.Obligs = append(r.Obligs, o)
	return o
}

// check adds an obligation and then assumes the goal on the continuing path.
func (r *FnRun) check(st *State, kind, label string, site ssa.Instruction, goal, desc string) {
	if r.C != nil && r.C.Opts["ignore."+kind] != "" {
		r.Assump[r.shortFn()+": obligations of kind "+kind+" are not generated ("+r.C.Opts["ignore."+kind]+")"] = true
		return
	}
	props := r.C.Serves
	r.oblig(st, kind, label, site, goal, desc, props)
	if !strings.Contains(goal, "(forall ") {
		st.assume(goal)
	}
}

// ---------- value lookup ----------

func (r *FnRun) constVal(c *ssa.Const) Val {
	t := c.Type()
	if c.Value == nil {
		return zeroVal(t)
	}
	switch kindOf(t) {
	case KInt:
		if isFloat(t) {
			f, _ := constant.Float64Val(c.Value)
			// exact small integers keep their identity through f64const
			if f == float64(int64(f)) {
				return intVal(sx("f64const", sInt(int64(f))), t)
			}
			bits := int64(f * 1e9)
			return intVal(sx("f64const", sInt(1000000000000+bits)), t)
		}
		if c.Value.Kind() == constant.Int {
			if i, ok := constant.Int64Val(c.Value); ok {
				return intVal(sInt(i), t)
			}
			if u, ok := constant.Uint64Val(c.Value); ok {
				return intVal(fmt.Sprintf("%d", u), t)
			}
			return intVal(c.Value.ExactString(), t)
		}
		i, _ := constant.Int64Val(constant.ToInt(c.Value))
		return intVal(sInt(i), t)
	case KBool:
		if constant.BoolVal(c.Value) {
			return boolVal("true")
		}
		return boolVal("false")
	case KSeq:
		return Val{K: KSeq, T: t, S: r.strLit(constant.StringVal(c.Value))}
	}
	return zeroVal(t)
}

// string literals become world-level named constants (name derived from the
// contents), so that code, contracts, spec functions and axioms agree on them.
func (r *FnRun) strLit(s string) string {
	return r.W.strLit(s)
}

func (w *World) strLit(s string) string {
	if s == "" {
		return "bempty"
	}
	if w.lits == nil {
		w.lits = map[string][]string{}
		w.litByText = map[string]string{}
	}
	if n, ok := w.litByText[s]; ok {
		return n
	}
	h := sha256.Sum256([]byte(s))
	name := "lit!" + sanitize(trunc(s, 12)) + "!" + hex.EncodeToString(h[:4])
	ax := []string{fmt.Sprintf("(declare-const %s BSeq)", name), fmt.Sprintf("(assert (= (blen %s) %d))", name, len(s))}
	if len(s) <= 48 {
		for i := 0; i < len(s); i++ {
			ax = append(ax, fmt.Sprintf("(assert (= (bat %s %d) %d))", name, i, s[i]))
		}
	}
	for _, lp := range w.Specs.LitPreds {
		if lp.Re.MatchString(s) {
			ax = append(ax, fmt.Sprintf("(assert (%s %s))", lp.Pred, name))
		}
	}
	w.lits[name] = ax
	w.litByText[s] = name
	return name
}

func trunc(s string, n int) string {
	if len(s) > n {
		return s[:n]
	}
	return s
}

var litStore = map[*FnRun]map[string]string{}

func (r *FnRun) litNames() map[string]string {
	m := litStore[r]
	if m == nil {
		m = map[string]string{}
		litStore[r] = m
	}
	return m
}

func (r *FnRun) globalRef(g *ssa.Global) string {
	// globals get negative object ids, stable per run
	key := "glob!" + g.String()
	if n, ok := r.inputs[key]; ok {
		return n
	}
	id := -(len(r.inputs) + 10)
	t := sx("obj", sInt(int64(id)))
	r.inputs[key] = t
	// package-level variables are objects of their own: typed like their
	// contents, or (for scalars, slices, interfaces) with a unique marker type
	gty := sInt(int64(id))
	if pt, ok := g.Type().(*types.Pointer); ok {
		switch pt.Elem().Underlying().(type) {
		case *types.Struct, *types.Array:
			gty = fmt.Sprint(r.W.tagFor(pt.Elem()))
		}
	}
	r.globalFacts = append(r.globalFacts, sEq(sx("tyof", t), gty), sEq(sx("elty", t), "0"))
	if r.W.zeroGlobals[g] {
		r.zeroRefs = append(r.zeroRefs, t)
		r.Assump["package-level array "+g.String()+" is never written (checked: only used as the source of copy) and keeps its zero value"] = true
	}
	return t
}

func (r *FnRun) val(st *State, v ssa.Value) Val {
	switch x := v.(type) {
	case *ssa.Const:
		return r.constVal(x)
	case *ssa.Global:
		return refVal(r.globalRef(x), x.Type())
	case *ssa.Function:
		return refVal(r.funcRef(x), x.Type())
	case *ssa.Builtin:
		return refVal("null", x.Type())
	}
	if val, ok := st.vals[v]; ok {
		return val
	}
	// free variables of closures, or values not yet defined on this path
	nv := r.freshVal(st, v.Type(), v.Name())
	st.vals[v] = nv
	return nv
}

func (r *FnRun) funcRef(f *ssa.Function) string {
	key := "func!" + f.String()
	if n, ok := r.inputs[key]; ok {
		return n
	}
	id := -(len(r.inputs) + 10)
	t := sx("obj", sInt(int64(id)))
	r.inputs[key] = t
	return t
}

// ---------- loops ----------

func findLoops(fn *ssa.Function) map[*ssa.BasicBlock]*loopInfo {
	loops := map[*ssa.BasicBlock]*loopInfo{}
	for _, b := range fn.Blocks {
		for _, s := range b.Succs {
			if s.Dominates(b) {
				li := loops[s]
				if li == nil {
					li = &loopInfo{header: s, blocks: map[*ssa.BasicBlock]bool{s: true}}
					loops[s] = li
				}
				// natural loop of back edge b->s
				var stack []*ssa.BasicBlock
				if !li.blocks[b] {
					li.blocks[b] = true
					stack = append(stack, b)
				}
				for len(stack) > 0 {
					x := stack[len(stack)-1]
					stack = stack[:len(stack)-1]
					for _, p := range x.Preds {
						if !li.blocks[p] {
							li.blocks[p] = true
							stack = append(stack, p)
						}
					}
				}
			}
		}
	}
	var hs []*ssa.BasicBlock
	for h := range loops {
		hs = append(hs, h)
	}
	// ordinal: source position of the loop (position of the first positioned
	// instruction in the header or its body), falling back to block index
	pos := func(li *loopInfo) token.Pos {
		best := token.NoPos
		for b := range li.blocks {
			for _, in := range b.Instrs {
				if p := in.Pos(); p.IsValid() && (best == token.NoPos || p < best) {
					best = p
				}
			}
		}
		return best
	}
	sort.Slice(hs, func(i, j int) bool {
		pi, pj := pos(loops[hs[i]]), pos(loops[hs[j]])
		if pi != pj {
			return pi < pj
		}
		return hs[i].Index < hs[j].Index
	})
	for i, h := range hs {
		loops[h].ord = i + 1
	}
	return loops
}

// assumeTy: a non-null pointer of static type *T points to an object of
// dynamic type T (type-based alias exclusion; unsafe casts are not modelled).
func (r *FnRun) assumeTy(st *State, v string, t types.Type) {
	if t == nil {
		return
	}
	switch t.Underlying().(type) {
	case *types.Chan, *types.Map:
		// channels and maps are whole objects of their own type
		st.assume(sOr(sEq(v, "null"), sAnd(sEq(sx("tyof", v), fmt.Sprint(r.W.tagFor(t))), sx("(_ is obj)", v))))
		return
	}
	pt, ok := t.Underlying().(*types.Pointer)
	if !ok {
		return
	}
	switch pt.Elem().Underlying().(type) {
	case *types.Struct, *types.Array:
	default:
		return
	}
	_ = 0
	id := r.W.tagFor(pt.Elem())
	if _, isArr := pt.Elem().Underlying().(*types.Array); isArr {
		// Go converts freely between pointers to array types with identical underlying types
		// ((*[32]byte)(pub) for `type PublicKey [32]byte`): the object behind a *T may have been
		// allocated as any of them.  Demanding tyof == tag(T) made every path through such a
		// conversion contradictory, i.e. vacuously verified (DESIGN 11.6b).
		// (stated through the class of the tag, not as a disjunction of tags: no case split)
		st.assume(sOr(sEq(v, "null"), sEq(sx("tyclass", sx("tyof", v)), fmt.Sprint(r.W.arrayClass(id)))))
	} else {
		st.assume(sOr(sEq(v, "null"), sEq(sx("tyof", v), fmt.Sprint(id))))
	}
	if at, ok := pt.Elem().Underlying().(*types.Array); ok {
		st.assume(sOr(sEq(v, "null"), sAnd(sEq(sx("alen", v), fmt.Sprint(at.Len())), sEq(sx("elty", v), fmt.Sprint(r.W.eltyFor(at.Elem()))))))
	}
	if !r.W.embeddable[types.TypeString(pt.Elem(), nil)] {
		// no type in the program contains a T by value: a *T points to a whole object
		st.assume(sOr(sEq(v, "null"), sx("(_ is obj)", v)))
	} else if cts, ok := r.W.containerTypes(pt.Elem()); ok {
		// T occurs by value only as a field of the listed struct types
		a := v
		for k := 0; k < 3; k++ {
			a = sx("parent", a)
			ds := []string{sEq(a, "null")}
			for _, ct := range cts {
				ds = append(ds, sEq(sx("tyof", a), fmt.Sprint(r.W.tagFor(ct))))
			}
			st.assume(sOr(sEq(v, "null"), sOr(ds...)))
		}
	}
}

// assumeIface: modelling assumptions about interface values that come from
// memory or from the caller: the payload is null, a boxed scalar, or a whole
// object whose type is the one named by the dynamic type tag; the dynamic
// type implements the static interface type.
func (r *FnRun) assumeIface(st *State, tag, pay string, t types.Type) {
	st.assume(sOr(sEq(pay, "null"), sx("(_ is ibox)", pay), sAnd(sx("(_ is obj)", pay), sEq(sx("tyof", pay), sx("tagty", tag)))))
	// a pointer-typed dynamic value is a pointer (or a typed nil), never a boxed scalar
	st.assume(sImp(sx("ptrtag", tag), sNot(sx("(_ is ibox)", pay))))
	it, ok := t.Underlying().(*types.Interface)
	if !ok || it.NumMethods() == 0 {
		return
	}
	// positive form: the tag is nil, one of the known types implementing the
	// interface, or a type outside the table
	n := len(r.W.TagNames)
	ds := []string{sEq(tag, "0"), sx(">", tag, fmt.Sprint(n))}
	for _, id := range r.W.implementers(it, t) {
		ds = append(ds, sEq(tag, fmt.Sprint(id)))
	}
	st.assume(sOr(ds...))
}
