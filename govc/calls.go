package main

import (
	"fmt"
	"go/ast"
	"go/types"
	"sort"
	"strconv"
	"strings"
	"sync"

	"golang.org/x/tools/go/ssa"
)

type modItem struct {
	cond    string // "" or a guard under which the item is in the frame
	kind    string // cell | sub | star | elems | arr
	ref     string
	heapK   string // for cell
	sl      Val    // for elems
	elemInt bool
	src     string
	private bool // representation-private: invisible to callers in other packages
}

func heapOfKind(k Kind) string {
	switch k {
	case KInt:
		return "I"
	case KBool:
		return "B"
	case KRef, KOpaque:
		return "R"
	case KSeq:
		return "S"
	}
	return ""
}

func heapOfSort(s string) string {
	switch s {
	case "Int":
		return "I"
	case "Bool":
		return "B"
	case "Ref":
		return "R"
	case "BSeq":
		return "S"
	}
	return ""
}

func (e *Env) evalModItems(exprs []ast.Expr) []modItem {
	var out []modItem
	for _, x := range exprs {
		src := exprString(x)
		if call, ok := x.(*ast.CallExpr); ok {
			if id, ok := call.Fun.(*ast.Ident); ok {
				switch id.Name {
				case "private":
					// private(item): part of the package-private representation of the receiver
					sub := e.evalModItems(call.Args)
					for _, it := range sub {
						it.private = true
						out = append(out, it)
					}
					continue
				case "when":
					// when(cond, item)
					c := e.eval(call.Args[0])
					sub := e.evalModItems(call.Args[1:])
					for _, it := range sub {
						it.cond = sAnd(it.cond, c.S)
						it.src = src
						out = append(out, it)
					}
					continue
				case "star":
					v := e.eval(call.Args[0])
					if v.K == KStruct && e.err == nil {
						// a struct held by value: everything inside it
						ref, _, _ := e.evalAddr(call.Args[0])
						if e.err == nil {
							out = append(out, modItem{kind: "sub", ref: ref, src: src})
						}
						continue
					}
					ref := v.S
					if v.K == KIface {
						ref = v.Pay
					} else if v.K == KSlice {
						ref = v.Bas
					}
					if v.T != nil {
						e.r.assumeFieldTypes(e.st, ref, derefType(v.T), 0)
					}
					out = append(out, modItem{kind: "star", ref: ref, src: src})
					continue
				case "alloftype":
					// every cell (field, ghost field, map cell, ghost family cell) of every object of a type,
					// named by a string ("*T") or by an expression of that static type
					var t types.Type
					if lit, ok := call.Args[0].(*ast.BasicLit); ok {
						name, _ := strconv.Unquote(lit.Value)
						t = e.r.W.lookupType(name)
						if t == nil {
							e.fail("alloftype: unknown type %s", name)
							continue
						}
					} else {
						v := e.eval(call.Args[0])
						if e.err != nil {
							continue
						}
						t = v.T
						if t == nil {
							e.fail("alloftype(%s): expression has no static type", src)
							continue
						}
					}
					out = append(out, modItem{kind: "type", ref: fmt.Sprint(e.r.W.tagFor(derefOrSelf(t))), src: src})
					continue
				case "fs":
					// the whole ghost file system
					out = append(out, modItem{kind: "sub", ref: sx("fld", ghostRoot, "10"), src: src})
					continue
				case "elems":
					v := e.eval(call.Args[0])
					if v.K == KRef && v.T != nil && derefType(v.T) != nil {
						if at, ok := derefType(v.T).Underlying().(*types.Array); ok {
							v = Val{K: KSlice, T: types.NewSlice(at.Elem()), Bas: v.S, Off: "0", Len: fmt.Sprint(at.Len()), Cap: fmt.Sprint(at.Len())}
						}
					}
					if v.K != KSlice {
						e.fail("elems() of non-slice %s", src)
						continue
					}
					ei := true
					if v.T != nil {
						ei = kindOf(v.T.Underlying().(*types.Slice).Elem()) == KInt
					}
					out = append(out, modItem{kind: "elems", sl: v, elemInt: ei, src: src})
					continue
				}
			}
		}
		ref, t, gs := e.evalAddr(x)
		if e.err != nil {
			return out
		}
		if gs != "" {
			out = append(out, modItem{kind: "cell", ref: ref, heapK: heapOfSort(gs), src: src})
			continue
		}
		switch kindOf(t) {
		case KInt, KBool, KRef, KSeq, KOpaque:
			out = append(out, modItem{kind: "cell", ref: ref, heapK: heapOfKind(kindOf(t)), src: src})
		case KArr:
			e.r.assumeTy(e.st, ref, types.NewPointer(t))
			out = append(out, modItem{kind: "arr", ref: ref, src: src})
		default:
			out = append(out, modItem{kind: "sub", ref: ref, src: src})
		}
	}
	return out
}

// inFrameCell: is cell r (of heap k) covered by the items?
func guard(it modItem, s string) string {
	if it.cond == "" || it.cond == "true" {
		return s
	}
	return sAnd(it.cond, s)
}

func inFrameCell(items []modItem, k, r string) string {
	var ds []string
	for _, it := range items {
		switch it.kind {
		case "cell":
			if it.heapK == k {
				ds = append(ds, guard(it, sEq(r, it.ref)))
			}
		case "sub":
			ds = append(ds, guard(it, sx("withineq", r, it.ref)))
		case "star":
			ds = append(ds, guard(it, sx("within", r, it.ref)))
		case "type":
			// the matched ancestor is a whole allocated object of the type (a field path such as a
			// slice header has no type of its own)
			ds = append(ds, guard(it, sOr(
				sAnd(sx("(_ is obj)", sx("parent", r)), sEq(sx("tyof", sx("parent", r)), it.ref)),
				sAnd(sx("(_ is obj)", sx("parent", sx("parent", r))), sEq(sx("tyof", sx("parent", sx("parent", r))), it.ref)))))
		case "elems":
			if !it.elemInt {
				for _, rr := range []string{r, sx("parent", r), sx("parent", sx("parent", r))} {
					ds = append(ds, guard(it, sAnd(sx("(_ is elt)", rr), sEq(sx("ebase", rr), it.sl.Bas), sx("<=", it.sl.Off, sx("eidx", rr)), sx("<", sx("eidx", rr), sAdd(it.sl.Off, it.sl.Len)))))
				}
			}
		}
	}
	return sOr(ds...)
}

// inFrameArr: is index i of the array object b covered?
func inFrameArr(items []modItem, b, i string) string {
	var ds []string
	for _, it := range items {
		switch it.kind {
		case "arr":
			ds = append(ds, guard(it, sEq(b, it.ref)))
		case "sub":
			ds = append(ds, guard(it, sx("withineq", b, it.ref)))
		case "star":
			ds = append(ds, guard(it, sx("within", b, it.ref)))
		case "elems":
			if it.elemInt {
				ds = append(ds, guard(it, sAnd(sEq(b, it.sl.Bas), sx("<=", it.sl.Off, i), sx("<", i, sAdd(it.sl.Off, it.sl.Len)))))
			}
		}
	}
	return sOr(ds...)
}

func itemsTouch(items []modItem, k string) bool {
	for _, it := range items {
		switch it.kind {
		case "cell":
			if it.heapK == k {
				return true
			}
		case "arr":
			if k == "A" {
				return true
			}
		case "elems":
			if it.elemInt && k == "A" || !it.elemInt && k != "A" {
				return true
			}
		default:
			return true
		}
	}
	return false
}

// havocItems havocs exactly the frame described by items.
func (r *FnRun) havocItems(st *State, items []modItem) {
	for _, k := range []string{"I", "B", "R", "S"} {
		var wide []modItem
		for _, it := range items {
			switch it.kind {
			case "cell":
				if it.heapK == k {
					var fv string
					switch k {
					case "I":
						fv = r.fresh("hv", "Int")
					case "B":
						fv = r.fresh("hv", "Bool")
					case "R":
						fv = r.fresh("hv", "Ref")
					case "S":
						fv = r.fresh("hv", "BSeq")
					}
					if it.cond != "" && it.cond != "true" {
						fv = sIte(it.cond, fv, sx("select", st.heap[k], it.ref))
					}
					r.setHeap(st, k, sx("store", st.heap[k], it.ref, fv))
				}
			case "sub", "star", "type":
				wide = append(wide, it)
			case "elems":
				if !it.elemInt {
					wide = append(wide, it)
				}
			}
		}
		if len(wide) > 0 {
			old := st.heap[k]
			n := r.fresh("H"+k, heapSort(k))
			st.assume(fmt.Sprintf("(forall ((r Ref)) (! (=> (not %s) (= (select %s r) (select %s r))) :pattern ((select %s r))))", inFrameCell(wide, k, "r"), n, old, n))
			st.heap[k] = n
		}
	}
	// array contents
	var wide []modItem
	for _, it := range items {
		switch it.kind {
		case "arr":
			na := r.fresh("hva", "(Array Int Int)")
			if it.cond != "" && it.cond != "true" {
				na = sIte(it.cond, na, sx("select", st.heap["A"], it.ref))
			}
			r.setHeap(st, "A", sx("store", st.heap["A"], it.ref, na))
		case "elems":
			if it.elemInt {
				fs := r.fresh("hvs", "BSeq")
				st.assume(sEq(sx("blen", fs), it.sl.Len))
				a := st.heap["A"]
				na := sx("splice", sx("select", a, it.sl.Bas), it.sl.Off, it.sl.Len, fs)
				if it.cond != "" && it.cond != "true" {
					na = sIte(it.cond, na, sx("select", a, it.sl.Bas))
				}
				r.setHeap(st, "A", sx("store", a, it.sl.Bas, na))
			}
		case "sub", "star":
			wide = append(wide, it)
		}
	}
	if len(wide) > 0 {
		old := st.heap["A"]
		n := r.fresh("HA", heapSort("A"))
		st.assume(fmt.Sprintf("(forall ((b Ref)) (! (=> (not %s) (= (select %s b) (select %s b))) :pattern ((select %s b))))", inFrameArr(wide, "b", "0"), n, old, n))
		st.heap["A"] = n
	}
}

func (r *FnRun) havocAll(st *State) {
	for _, k := range heapKinds {
		st.heap[k] = r.fresh("H"+k, heapSort(k))
	}
}

func (r *FnRun) bumpAlloc(st *State) {
	na := r.fresh("alloc", "Int")
	st.assume(sx(">=", na, st.alloc))
	st.alloc = na
}

// checkFrameStore: a store to cell p must be inside the function's frame or
// into an object allocated by this invocation.
func (r *FnRun) checkFrameStore(st *State, site ssa.Instruction, p string, v Val) {
	if r.C == nil || r.C.Opts["noframe"] != "" || r.isFreshRef(p) {
		return
	}
	freshObj := sx(">=", sx("rootid", p), r.alloc0)
	var goal string
	switch v.K {
	case KInt:
		if b, i, ok := isEltTerm(p); ok {
			goal = sOr(sx(">=", sx("rootid", b), r.alloc0), inFrameArr(r.frame, b, i))
		} else if definitelyNotElt(p) {
			goal = sOr(freshObj, inFrameCell(r.frame, "I", p))
		} else {
			goal = sOr(freshObj, sIte(sx("(_ is elt)", p), inFrameArr(r.frame, sx("ebase", p), sx("eidx", p)), inFrameCell(r.frame, "I", p)))
		}
	case KBool:
		goal = sOr(freshObj, inFrameCell(r.frame, "B", p))
	case KRef, KOpaque:
		goal = sOr(freshObj, inFrameCell(r.frame, "R", p))
	case KSeq:
		goal = sOr(freshObj, inFrameCell(r.frame, "S", p))
	case KArr:
		goal = sOr(freshObj, inFrameArr(r.frame, p, "0"))
	default:
		// composite: every heap at p's sub-cells; approximate by requiring p itself covered widely
		var wide []modItem
		for _, it := range r.frame {
			if it.kind == "sub" || it.kind == "star" {
				wide = append(wide, it)
			}
		}
		goal = sOr(freshObj, inFrameCell(wide, "I", sx("fld", p, "0")))
	}
	r.check(st, "frame", "", site, goal, "store target is inside the modifies frame")
}

// checkFrameCall: callee's frame must be included in ours.
func (r *FnRun) checkFrameCall(st *State, site ssa.Instruction, items []modItem, callee string) {
	if r.C == nil || r.C.Opts["noframe"] != "" {
		return
	}
	for _, it := range items {
		var goal string
		if it.kind == "type" {
			goal = "false"
			for _, mine := range r.frame {
				if mine.kind == "type" && mine.ref == it.ref && (mine.cond == "" || mine.cond == "true") {
					goal = "true"
				}
			}
			short := callee
			if i := strings.LastIndex(short, "."); i >= 0 {
				short = short[i+1:]
			}
			r.check(st, "frame", sanitize(short+"."+it.src), site, goal, "frame of callee "+callee+" ("+it.src+") is inside the caller's modifies frame")
			continue
		}
		if it.kind == "elems" && r.isFreshRef(it.sl.Bas) || it.kind != "elems" && r.isFreshRef(it.ref) {
			continue
		}
		switch it.kind {
		case "cell":
			// a cell of the nil object is no cell (the callee would have panicked before writing it)
			goal = sOr(sx(">=", sx("rootid", it.ref), r.alloc0), inFrameCell(r.frame, it.heapK, it.ref), sAnd(sx("(_ is fld)", it.ref), sEq(sx("parent", it.ref), "null")))
		case "arr":
			goal = sOr(sx(">=", sx("rootid", it.ref), r.alloc0), inFrameArr(r.frame, it.ref, "0"))
		case "sub", "star":
			var ds []string
			for _, mine := range r.frame {
				switch mine.kind {
				case "sub":
					ds = append(ds, sx("withineq", it.ref, mine.ref))
				case "star":
					if it.kind == "star" {
						ds = append(ds, sx("withineq", it.ref, mine.ref))
					} else {
						ds = append(ds, sx("within", it.ref, mine.ref))
					}
				case "type":
					// a whole object of a type whose every cell is in the frame (cells up to two
					// levels below the object; maps, lists and flat structs are that shallow)
					if mine.cond == "" || mine.cond == "true" {
						ds = append(ds, sAnd(sx("(_ is obj)", it.ref), sEq(sx("tyof", it.ref), mine.ref)))
					}
				}
			}
			goal = sOr(append(ds, sx(">=", sx("rootid", it.ref), r.alloc0), sEq(it.ref, "null"), sAnd(sx("(_ is fld)", it.ref), sEq(sx("parent", it.ref), "null")))...)
		case "elems":
			if it.elemInt {
				goal = sOr(sx(">=", sx("rootid", it.sl.Bas), r.alloc0), sEq(it.sl.Len, "0"),
					fmt.Sprintf("(forall ((fi Int)) (=> (and (<= %s fi) (< fi %s)) %s))", it.sl.Off, sAdd(it.sl.Off, it.sl.Len), inFrameArr(r.frame, it.sl.Bas, "fi")))
			} else {
				goal = sOr(sx(">=", sx("rootid", it.sl.Bas), r.alloc0), sEq(it.sl.Len, "0"), inFrameCell(r.frame, "R", sx("elt", it.sl.Bas, it.sl.Off)))
			}
		}
		short := callee
		if i := strings.LastIndex(short, "."); i >= 0 {
			short = short[i+1:]
		}
		if it.cond != "" && it.cond != "true" {
			goal = sImp(it.cond, goal)
		}
		r.check(st, "frame", sanitize(short+"."+it.src), site, goal, "frame of callee "+callee+" ("+it.src+") is inside the caller's modifies frame")
	}
}

// ---------- calls ----------

func (r *FnRun) execCall(st *State, site ssa.Instruction, call *ssa.CallCommon, resT types.Type) Val {
	var args []Val
	for _, a := range call.Args {
		args = append(args, r.val(st, a))
	}
	if call.IsInvoke() {
		recv := r.val(st, call.Value)
		return r.invoke(st, site, call, recv, args, resT)
	}
	switch f := call.Value.(type) {
	case *ssa.Builtin:
		return r.builtin(st, site, f, call, args, resT)
	case *ssa.Function:
		if r.lockHook(st, site, f, call.Args, args) {
			return unitVal()
		}
		if f.String() == "(*sync.Once).Do" && len(args) == 2 {
			return r.onceDo(st, site, call, args, resT)
		}
		return r.callStatic(st, site, f, args, nil, resT)
	case *ssa.MakeClosure:
		fn := f.Fn.(*ssa.Function)
		var binds []Val
		for _, b := range f.Bindings {
			binds = append(binds, r.val(st, b))
		}
		return r.callStatic(st, site, fn, args, binds, resT)
	}
	// dynamic function value
	fv := r.val(st, call.Value)
	if mc := r.closures()[fv.S]; mc != nil {
		fn := mc.Fn.(*ssa.Function)
		var binds []Val
		for _, b := range mc.Bindings {
			binds = append(binds, r.val(st, b))
		}
		return r.callStatic(st, site, fn, args, binds, resT)
	}
	return r.unknownCall(st, site, "dynamic call "+call.Value.Name()+" in "+r.shortFn(), resT)
}

// onceDo models (*sync.Once).Do(f) sequentially: if the Once has fired (ghost cell 910 of the Once)
// nothing happens; otherwise it is marked and f runs.  Two paths.  (Do's blocking of concurrent
// callers until f returns is outside the sequential model, like every interleaving.)
func (r *FnRun) onceDo(st *State, site ssa.Instruction, call *ssa.CallCommon, args []Val, resT types.Type) Val {
	cell := sx("fld", args[0].S, "910")
	done := r.fresh("once.done", "Bool")
	st.assume(sEq(done, sx("select", st.heap["B"], cell)))
	var fn *ssa.Function
	var binds []Val
	switch fv := call.Args[1].(type) {
	case *ssa.MakeClosure:
		fn = fv.Fn.(*ssa.Function)
		for _, b := range fv.Bindings {
			binds = append(binds, r.val(st, b))
		}
	case *ssa.Function:
		fn = fv
	default:
		return r.unknownCall(st, site, "sync.Once.Do with a dynamic function value in "+r.shortFn(), resT)
	}
	// path A: already done
	stA := st.clone()
	stA.assume(done)
	r.continuationAfter(site, resT)(stA, nil)
	// path B: first call
	st.assume(sNot(done))
	r.checkFrameCall(st, site, []modItem{{kind: "cell", ref: cell, heapK: "B", src: "sync.Once state"}}, "Once.Do")
	r.setHeap(st, "B", sx("store", st.heap["B"], cell, "true"))
	r.Assump["sync.Once is modelled sequentially (fired flag + one call of the function); its synchronisation of concurrent callers is trusted"] = true
	return r.callStatic(st, site, fn, nil, binds, resT)
}

func (r *FnRun) unknownCall(st *State, site ssa.Instruction, what string, resT types.Type) Val {
	r.Unknown[what] = true
	r.havocAll(st)
	r.bumpAlloc(st)
	if r.C != nil && r.C.Opts["noframe"] == "" {
		r.oblig(st, "frame", "", site, "false", "call with unknown effects ("+what+") cannot be framed", r.C.Serves)
	}
	return r.freshVal(st, resT, "unk")
}

func (r *FnRun) invoke(st *State, site ssa.Instruction, call *ssa.CallCommon, recv Val, args []Val, resT types.Type) Val {
	// a method call through a nil interface or a typed-nil receiver is a nil
	// dereference, which is outside the model (listed as an assumption)
	st.assume(sAnd(sNot(sEq(recv.Tag, "0")), sNot(sEq(recv.Pay, "null"))))
	// dynamic type statically known?
	if n, ok := isIntLit(recv.Tag); ok && n.Sign() > 0 {
		if t := r.W.tagTypes()[int(n.Int64())]; t != nil {
			ms := r.W.Prog.MethodSets.MethodSet(t)
			if sel := ms.Lookup(call.Method.Pkg(), call.Method.Name()); sel != nil {
				if fn := r.W.Prog.MethodValue(sel); fn != nil {
					var rv Val
					switch kindOf(t) {
					case KRef:
						rv = refVal(recv.Pay, t)
					case KInt:
						rv = intVal(sx("ival", recv.Pay), t)
					default:
						rv = r.load(st, recv.Pay, t, "recv")
					}
					if r.W.ContractOf[fn] != nil || strings.HasPrefix(fn.Pkg.Pkg.Path(), modPath) {
						return r.callStatic(st, site, fn, append([]Val{rv}, args...), nil, resT)
					}
				}
			}
		}
	}
	key := call.Method.FullName()
	// a spec for the static interface type takes precedence, e.g.
	// (hash.Hash).Write over (io.Writer).Write
	skey := "(" + types.TypeString(call.Value.Type(), nil) + ")." + call.Method.Name()
	c := r.W.IfaceSpec[skey]
	if c != nil {
		key = skey
	} else {
		c = r.W.IfaceSpec[key]
	}
	if c == nil {
		return r.unknownCall(st, site, "interface method "+key, resT)
	}
	// case split over the concrete types named by `opt dispatch`
	if d := c.Opts["dispatch"]; d != "" {
		if _, isDefer := site.(*ssa.RunDefers); !isDefer {
			var others []string
			for _, tn := range strings.Fields(d) {
				t := r.W.lookupType(tn)
				if t == nil {
					r.errorf("%s: dispatch type %s unknown", key, tn)
					continue
				}
				tag := fmt.Sprint(r.W.tagFor(t))
				others = append(others, sNot(sEq(recv.Tag, tag)))
				st2 := st.clone()
				st2.assume(sEq(recv.Tag, tag))
				st2.assume(sNot(sEq(recv.Pay, "null"))) // typed-nil receivers: nil dereference is outside the model
				r.assumeTy(st2, recv.Pay, t)
				recv2 := recv
				recv2.Tag = tag
				res := r.invoke(st2, site, call, recv2, args, resT)
				if !st2.panicked {
					r.continuationAfter(site, resT)(st2, splitResults(res))
				}
			}
			st.assume(sAnd(others...))
		}
	}
	return r.applyContract(st, site, c, key, nil, append([]Val{recv}, args...), resT)
}

func (r *FnRun) callStatic(st *State, site ssa.Instruction, fn *ssa.Function, args []Val, binds []Val, resT types.Type) Val {
	if c := r.W.ContractOf[fn]; c != nil && (len(binds) == 0) {
		if fn == r.Fn && st.inl == nil {
			// recursive call: use own contract
		}
		return r.applyContract(st, site, c, shortFuncName(fn), fn, args, resT)
	}
	inRepo := fn.Pkg != nil && strings.HasPrefix(fn.Pkg.Pkg.Path(), modPath) || fn.Parent() != nil
	if inRepo && fn.Blocks != nil && r.canInline(fn, st) {
		return r.inlineCall(st, site, fn, args, binds, resT)
	}
	if fn.Blocks != nil && r.W.inlineExternal(fn) && r.canInline(fn, st) {
		return r.inlineCall(st, site, fn, args, binds, resT)
	}
	return r.unknownCall(st, site, "call to "+fn.String()+" (no contract, not inlinable)", resT)
}

func (w *World) inlineExternal(fn *ssa.Function) bool { return false }

func splitResults(v Val) []Val {
	switch v.K {
	case KUnit:
		return nil
	case KTuple:
		return v.Fs
	}
	return []Val{v}
}

func (r *FnRun) canInline(fn *ssa.Function, st *State) bool {
	depth := 0
	for f := st.inl; f != nil; f = f.parent {
		depth++
		if f.fn == fn {
			return false
		}
	}
	if fn == r.Fn || depth >= 4 {
		return false
	}
	n := 0
	for _, b := range fn.Blocks {
		n += len(b.Instrs)
		for _, s := range b.Succs {
			if s.Dominates(b) {
				return false // has a loop
			}
		}
	}
	return n <= 120
}

func (r *FnRun) inlineCall(st *State, site ssa.Instruction, fn *ssa.Function, args []Val, binds []Val, resT types.Type) Val {
	r.Assump["inlined (verified in context, no separate contract): "+shortFuncName(fn)] = true
	// The continuation style of execBlock does not return values; emulate by
	// running the callee to each return and continuing the caller from the
	// instruction after `site`.  To keep the executor simple the callee is
	// executed on the same path and the caller's continuation is re-entered
	// through retCont.
	for i, p := range fn.Params {
		if i < len(args) {
			st.vals[p] = r.coerce(args[i], p.Type())
		}
	}
	for i, fv := range fn.FreeVars {
		if i < len(binds) {
			st.vals[fv] = binds[i]
		}
	}
	pref := ""
	if st.inl != nil {
		pref = st.inl.prefix
	}
	// ordinal of this call site for a stable prefix
	k := r.siteIndex(site)
	fr := &inlineFrame{fn: fn, parent: st.inl, prefix: fmt.Sprintf("%sinl.%s@%d/", pref, fn.Name(), k), defers0: len(st.defers)}
	cont := r.continuationAfter(site, resT)
	fr.retCont = cont
	st.inl = fr
	r.execBlock(st, fn.Blocks[0], nil)
	st.panicked = true // the caller's path has been continued inside retCont; stop the outer loop
	return unitVal()
}

func (r *FnRun) siteIndex(site ssa.Instruction) int {
	fn := site.Parent()
	m := r.spans[fn]
	if m == nil {
		m = map[ssa.Instruction]int{}
		n := 0
		for _, b := range fn.Blocks {
			for _, in := range b.Instrs {
				if _, ok := in.(ssa.CallInstruction); ok {
					n++
					m[in] = n
				}
			}
		}
		r.spans[fn] = m
	}
	return m[site]
}

// continuationAfter builds the caller continuation: bind the call result
// and continue executing the caller's block after the call instruction.
func (r *FnRun) continuationAfter(site ssa.Instruction, resT types.Type) func(st *State, results []Val) {
	b := site.Block()
	idx := -1
	for i, in := range b.Instrs {
		if in == site {
			idx = i
			break
		}
	}
	return func(st *State, results []Val) {
		var res Val
		switch len(results) {
		case 0:
			res = unitVal()
		case 1:
			res = results[0]
		default:
			res = Val{K: KTuple, T: resT, Fs: results}
		}
		if v, ok := site.(ssa.Value); ok {
			st.vals[v] = res
		}
		if _, isDefer := site.(*ssa.RunDefers); isDefer {
			// continue running remaining defers
			r.runDefers(st, site.(*ssa.RunDefers))
			if st.panicked {
				return
			}
			if st.recovering {
				r.finishUnwind(st, site)
				return
			}
		}
		for _, in := range b.Instrs[idx+1:] {
			if !r.execInstr(st, in, b) {
				return
			}
			if len(r.errs) > 0 {
				return
			}
		}
	}
}

// recoverSite: if the function under verification (not an inlined callee) has a recover block and a
// deferred closure that calls recover(), a RunDefers instruction of it to anchor the unwinding on.
func (r *FnRun) recoverSite(st *State) *ssa.RunDefers {
	if st.inl != nil || r.Fn.Recover == nil || len(st.defers) == 0 {
		return nil
	}
	calls := false
	for _, af := range r.Fn.AnonFuncs {
		for _, b := range af.Blocks {
			for _, in := range b.Instrs {
				if c, ok := in.(ssa.CallInstruction); ok {
					if bi, ok := c.Common().Value.(*ssa.Builtin); ok && bi.Name() == "recover" {
						calls = true
					}
				}
			}
		}
	}
	if !calls {
		return nil
	}
	for _, b := range r.Fn.Blocks {
		for _, in := range b.Instrs {
			if rd, ok := in.(*ssa.RunDefers); ok {
				return rd
			}
		}
	}
	return nil
}

// unwind runs the deferred calls of a panicking path; if one of them recovered, the function returns
// through its recover block (named results as they are), otherwise the panic is a crash.
func (r *FnRun) unwind(st *State, site *ssa.RunDefers) {
	st.recovering = true
	r.Assump[r.shortFn()+": a run-time panic is unwound through the deferred calls; recover() returns non-nil while unwinding (sequential model of panic/recover)"] = true
	r.runDefers(st, site)
	if st.panicked {
		return // continued (or ended) inside an inlined deferred call
	}
	r.finishUnwind(st, site)
}

func (r *FnRun) finishUnwind(st *State, site ssa.Instruction) {
	st.recovering = false
	if !st.recovered {
		r.check(st, "safe.panic", "unrecovered", site, "false", "a run-time panic on this path is not recovered by any deferred call")
		return
	}
	st.recovered = false
	r.execBlock(st, r.Fn.Recover, nil)
}

func (r *FnRun) runDefers(st *State, site *ssa.RunDefers) {
	base := 0
	if st.inl != nil {
		base = st.inl.defers0
	}
	for len(st.defers) > base {
		d := st.defers[len(st.defers)-1]
		st.defers = st.defers[:len(st.defers)-1]
		call := d.call
		if call.IsInvoke() {
			r.invoke(st, site, call, d.fn, d.args, call.Signature().Results())
			continue
		}
		switch f := call.Value.(type) {
		case *ssa.Builtin:
			r.builtin(st, site, f, call, d.args, nil)
		case *ssa.Function:
			if r.lockHook(st, site, f, call.Args, d.args) {
				continue
			}
			r.callStatic(st, site, f, d.args, nil, call.Signature().Results())
			if st.panicked {
				return
			}
		case *ssa.MakeClosure:
			fn := f.Fn.(*ssa.Function)
			var binds []Val
			for _, b := range f.Bindings {
				binds = append(binds, r.val(st, b))
			}
			r.callStatic(st, site, fn, d.args, binds, call.Signature().Results())
			if st.panicked {
				return
			}
		default:
			if mc := r.closures()[d.fn.S]; mc != nil {
				fn := mc.Fn.(*ssa.Function)
				var binds []Val
				for _, b := range mc.Bindings {
					binds = append(binds, r.val(st, b))
				}
				r.callStatic(st, site, fn, d.args, binds, call.Signature().Results())
				if st.panicked {
					return
				}
			} else {
				r.unknownCall(st, site, "deferred dynamic call in "+r.shortFn(), nil)
			}
		}
	}
}

// applyContract: assert requires, havoc modifies, assume ensures.
func (r *FnRun) applyContract(st *State, site ssa.Instruction, c *Contract, name string, fn *ssa.Function, args []Val, resT types.Type) Val {
	if c.Trusted {
		r.Trusted[name] = true
	} else if c.NoBody {
		r.Assump["contract of "+name+" assumed, body not verified: "+c.WhyNoBody] = true
	}
	env := &Env{r: r, st: st, vars: map[string]Val{}, fn: nil}
	if fn != nil && fn.Pkg != nil {
		env.pkg = fn.Pkg.Pkg
	} else if c.Pkg != "" {
		if sp := r.W.SSAPkgs[c.Pkg]; sp != nil {
			env.pkg = sp.Pkg
		}
	}
	if len(args) != len(c.Params) {
		r.errorf("%s: contract for %s has %d params, call has %d args", r.shortFn(), name, len(c.Params), len(args))
		return r.freshVal(st, resT, "res")
	}
	for i, p := range c.Params {
		env.vars[p] = args[i]
	}
	short := name
	if i := strings.LastIndex(short, "/"); i >= 0 {
		short = short[i+1:]
	}
	for _, rq := range c.Requires {
		g := env.eval(rq.Expr)
		if env.err != nil {
			r.errorf("%s:%d: %v", rq.File, rq.Line, env.err)
			return r.freshVal(st, resT, "res")
		}
		lbl := short
		if rq.Name != "" {
			lbl += "." + rq.Name
		}
		r.check(st, "pre", lbl, site, g.S, "precondition of "+name+": "+rq.Src)
	}
	for _, pi := range c.PanicsIf {
		g := env.eval(pi.Expr)
		if env.err != nil {
			r.errorf("%s:%d: %v", pi.File, pi.Line, env.err)
			return r.freshVal(st, resT, "res")
		}
		goal := sNot(g.S)
		if r.C != nil && len(r.C.PanicsIf) > 0 && st.inl == nil {
			// a callee panic is specified behaviour when the caller declares it
			oe := &Env{r: r, st: st, old: r.entry, vars: map[string]Val{}, fn: r.Fn, pkg: r.entryEnv.pkg}
			for k, v := range r.entryEnv.vars {
				oe.vars[k] = v
			}
			for _, own := range r.C.PanicsIf {
				ov := oe.eval(&ast.CallExpr{Fun: ast.NewIdent("old"), Args: []ast.Expr{own.Expr}})
				if oe.err == nil {
					goal = sOr(goal, ov.S)
				}
			}
		}
		r.oblig(st, "pre", short+".nopanic", site, goal, name+" panics if "+pi.Src, r.C.Serves)
		st.assume(sNot(g.S))
	}
	// snapshot
	old := st.clone()
	for _, g := range c.Ghosts {
		v := env.eval(g.Expr)
		if env.err != nil {
			r.errorf("%s: ghost %s: %v", name, g.Name, env.err)
			return r.freshVal(st, resT, "res")
		}
		env.vars[g.Name] = v
	}
	items := env.evalModItems(c.Modifies)
	if env.err != nil {
		r.errorf("%s: modifies of %s: %v", r.shortFn(), name, env.err)
		return r.freshVal(st, resT, "res")
	}
	if fn != nil && fn.Pkg != nil && r.Fn.Pkg != fn.Pkg {
		// representation-private frame items do not exist for callers in other packages
		var vis []modItem
		for _, it := range items {
			if it.private {
				r.Assump["the package-private representation of "+fn.Pkg.Pkg.Name()+" ("+it.src+") is reachable only through unexported fields; code outside that package holds no references into it, so calls change nothing such code can name"] = true
				continue
			}
			vis = append(vis, it)
		}
		items = vis
	}
	if len(items) > 0 {
		r.checkFrameCall(st, site, items, name)
		r.havocItems(st, items)
		r.assumeGlobalInvs(st)
	}
	if !c.Pure {
		r.bumpAlloc(st)
	}
	// results
	var results []Val
	var rts []types.Type
	if tu, ok := resT.(*types.Tuple); ok {
		for i := 0; i < tu.Len(); i++ {
			rts = append(rts, tu.At(i).Type())
		}
	} else if resT != nil && kindOf(resT) != KUnit {
		rts = []types.Type{resT}
	}
	for i, t := range rts {
		hint := "res"
		if i < len(c.Results) {
			hint = c.Results[i]
		}
		v := r.freshVal(st, t, hint)
		results = append(results, v)
		if i < len(c.Results) {
			env.vars[c.Results[i]] = v
		}
	}
	if len(results) == 1 {
		env.vars["result"] = results[0]
	}
	if c.Fresh && len(results) > 0 {
		ref := results[0].S
		if results[0].K == KSlice {
			ref = results[0].Bas
		} else if results[0].K == KIface {
			ref = results[0].Pay
		}
		// (a nil result is allowed: `fresh` says that a non-nil result is newly allocated; stating it
		// unconditionally made the nil-result branch of such a callee - the error path of os.ReadFile,
		// for one - contradictory, i.e. everything after it vacuously verified: DESIGN 11.6b)
		isNil := sEq(ref, "null")
		if results[0].K == KIface {
			// a non-nil interface result holds a newly allocated (non-null) object
			isNil = sEq(results[0].Tag, "0")
		}
		st.assume(sOr(isNil, sAnd(sNot(sEq(ref, "null")), sx(">=", sx("rootid", ref), old.alloc))))
		st.assume(sOr(sEq(ref, "null"), sx("(_ is obj)", ref))) // a freshly allocated result is a whole object
	}
	env.old = old
	for _, en := range c.Ensures {
		if auditProp != "" && c.Pkg != "" && !c.Trusted && !c.NoBody && !clauseServes(en, c, auditProp) {
			// attribution audit (GOVC_FOREIGN_AUDIT): a verified callee's clause that is not attributed
			// to the property being checked is not assumed; obligations that fail in this mode depend
			// on a clause that this property's own check would never report
			auditMu.Lock()
			auditSkipped[name+" :: "+trunc(en.Src, 100)]++
			auditMu.Unlock()
			continue
		}
		g := env.eval(en.Expr)
		if env.err != nil {
			r.errorf("%s:%d: %v", en.File, en.Line, env.err)
			break
		}
		st.assume(g.S)
	}
	switch len(results) {
	case 0:
		return unitVal()
	case 1:
		return results[0]
	}
	return Val{K: KTuple, T: resT, Fs: results}
}

var (
	auditProp    string
	auditMu      sync.Mutex
	auditSkipped = map[string]int{}
)

// ---------- builtins ----------

func (r *FnRun) builtin(st *State, site ssa.Instruction, f *ssa.Builtin, call *ssa.CallCommon, args []Val, resT types.Type) Val {
	switch f.Name() {
	case "len":
		v := args[0]
		switch v.K {
		case KSlice:
			return intVal(v.Len, types.Typ[types.Int])
		case KSeq:
			return intVal(sx("blen", v.S), types.Typ[types.Int])
		case KArr:
			return intVal(fmt.Sprint(v.T.Underlying().(*types.Array).Len()), types.Typ[types.Int])
		case KRef:
			if _, ok := v.T.Underlying().(*types.Map); ok {
				return intVal(r.mapLen(st, v.S), types.Typ[types.Int])
			}
			if dt := derefType(v.T); dt != nil {
				if at, ok := dt.Underlying().(*types.Array); ok {
					return intVal(fmt.Sprint(at.Len()), types.Typ[types.Int])
				}
			}
			if _, ok := v.T.Underlying().(*types.Chan); ok {
				n := r.fresh("chanlen", "Int")
				st.assume(sx("<=", "0", n))
				return intVal(n, types.Typ[types.Int])
			}
		}
	case "cap":
		v := args[0]
		if v.K == KSlice {
			return intVal(v.Cap, types.Typ[types.Int])
		}
		if v.K == KRef {
			if dt := derefType(v.T); dt != nil {
				if at, ok := dt.Underlying().(*types.Array); ok {
					return intVal(fmt.Sprint(at.Len()), types.Typ[types.Int])
				}
			}
			n := r.fresh("chancap", "Int")
			st.assume(sx("<=", "0", n))
			return intVal(n, types.Typ[types.Int])
		}
	case "copy":
		dst, src := args[0], args[1]
		var srcSeq, srcLen string
		if src.K == KSeq {
			srcSeq, srcLen = src.S, sx("blen", src.S)
		} else {
			srcSeq, srcLen = r.seqOfSlice(st, src), src.Len
		}
		n := r.fresh("ncopy", "Int")
		st.assume(sEq(n, sx("imin", dst.Len, srcLen)))
		// frame
		r.checkFrameCall(st, site, []modItem{{kind: "elems", sl: Val{K: KSlice, T: dst.T, Bas: dst.Bas, Off: dst.Off, Len: n, Cap: n}, elemInt: true, src: "copy destination"}}, "copy")
		a := st.heap["A"]
		r.setHeap(st, "A", sx("store", a, dst.Bas, sx("splice", sx("select", a, dst.Bas), dst.Off, n, sx("bsub", srcSeq, "0", n))))
		return intVal(n, types.Typ[types.Int])
	case "append":
		return r.builtinAppend(st, site, args, resT)
	case "delete":
		r.mapDelete(st, site, args[0], args[1])
		return unitVal()
	case "close":
		cell := sx("fld", args[0].S, "904")
		// closing a nil channel or a closed channel panics
		r.check(st, "safe.close", "", site, sAnd(sNot(sEq(args[0].S, "null")), sNot(sx("select", st.heap["B"], cell))), "close of a channel that is neither nil nor already closed")
		r.checkFrameCall(st, site, []modItem{{kind: "star", ref: args[0].S, src: "close"}}, "close")
		r.setHeap(st, "B", sx("store", st.heap["B"], cell, "true"))
		return unitVal()
	case "recover":
		if st.recovering {
			// the panic value of a run-time panic is a non-nil error
			st.recovered = true
			v := r.freshVal(st, resT, "recovered")
			if v.K == KIface {
				st.assume(sNot(sEq(v.Tag, "0")))
			}
			return v
		}
		return nilIface(resT)
	case "min", "max":
		op := "imin"
		if f.Name() == "max" {
			op = "imax"
		}
		out := args[0].S
		for _, a := range args[1:] {
			out = sx(op, out, a.S)
		}
		return intVal(out, resT)
	case "print", "println":
		return unitVal()
	case "ssa:wrapnilchk":
		return args[0]
	}
	r.errorf("%s: unsupported builtin %s", r.shortFn(), f.Name())
	return r.freshVal(st, resT, "bi")
}

func (r *FnRun) builtinAppend(st *State, site ssa.Instruction, args []Val, resT types.Type) Val {
	s := args[0]
	et := resT.Underlying().(*types.Slice).Elem()
	var addLen, addSeq string
	src := args[1]
	if src.K == KSeq {
		addLen, addSeq = sx("blen", src.S), src.S
	} else {
		addLen = src.Len
		if kindOf(et) == KInt {
			addSeq = r.seqOfSlice(st, src)
		}
	}
	newLen := r.fresh("applen", "Int")
	st.assume(sEq(newLen, sAdd(s.Len, addLen)))
	if kindOf(et) != KInt {
		// non-integer elements: fresh backing store with unspecified contents
		p := r.allocObj(st, "append")
		c := r.fresh("appcap", "Int")
		st.assume(sx(">=", c, newLen))
		st.assume(sEq(sx("alen", p), c))
		st.assume(sEq(sx("elty", p), fmt.Sprint(r.W.eltyFor(et))))
		return Val{K: KSlice, T: resT, Bas: p, Off: "0", Len: newLen, Cap: c}
	}
	oldSeq := r.seqOfSlice(st, s)
	// Two cases: capacity suffices (in place) or a fresh array.  Both are
	// represented with an ite on the condition.
	inPlace := sx("<=", newLen, s.Cap)
	if r.C != nil && r.C.Opts["append_in_place_possible"] == "" {
		// default: the result's contents are specified, aliasing is as in Go.
	}
	p := r.allocObj(st, "append")
	nb := r.fresh("appb", "Ref")
	no := r.fresh("appo", "Int")
	nc := r.fresh("appc", "Int")
	st.assume(sEq(nb, sIte(inPlace, s.Bas, p)))
	st.assume(sEq(no, sIte(inPlace, s.Off, "0")))
	st.assume(sIte(inPlace, sEq(nc, s.Cap), sx(">=", nc, newLen)))
	st.assume(sEq(sx("alen", p), sIte(inPlace, "0", nc)))
	st.assume(sEq(sx("elty", p), fmt.Sprint(r.W.eltyFor(et))))
	a := st.heap["A"]
	// contents: in place => splice the added bytes after the old ones (same
	// array); fresh => new array whose first newLen bytes are old ++ added
	newArr := r.fresh("apparr", "(Array Int Int)")
	st.assume(sEq(sx("seqOf", newArr, "0", newLen), sx("bcat", oldSeq, addSeq)))
	inPlaceArr := sx("splice", sx("select", a, s.Bas), sAdd(s.Off, s.Len), addLen, addSeq)
	// frame: in-place append writes into capacity of the old array
	if r.C != nil && r.C.Opts["noframe"] == "" {
		goal := sOr(sNot(inPlace), sEq(addLen, "0"), sx(">=", sx("rootid", s.Bas), r.alloc0),
			fmt.Sprintf("(forall ((fi Int)) (=> (and (<= %s fi) (< fi %s)) %s))", sAdd(s.Off, s.Len), sAdd(s.Off, newLen), inFrameArr(r.frame, s.Bas, "fi")))
		r.check(st, "frame", "", site, goal, "in-place append writes inside the modifies frame")
	}
	r.setHeap(st, "A", sIte(inPlace, sx("store", a, s.Bas, inPlaceArr), sx("store", a, p, newArr)))
	// summary, derivable in both cases from the facts above (stated so that proofs about the
	// result as a sequence do not depend on the solver finding the case split): the result is
	// the old contents followed by the added bytes
	st.assume(sEq(sx("seqOf", sx("select", st.heap["A"], nb), no, newLen), sx("bcat", oldSeq, addSeq)))
	return Val{K: KSlice, T: resT, Bas: nb, Off: no, Len: newLen, Cap: nc}
}

// ---------- maps (ghost model: presence in B at elt(m,key), value at elt(m,key)) ----------

func (r *FnRun) mapKey(k Val) string {
	switch k.K {
	case KInt:
		return k.S
	case KSeq:
		return sx("strkey", k.S)
	}
	return "0"
}

func (r *FnRun) mapLenCell(m string) string { return sx("fld", m, "900") }

func (r *FnRun) mapLen(st *State, m string) string {
	v := r.fresh("maplen", "Int")
	st.assume(sEq(v, sx("select", st.heap["I"], r.mapLenCell(m))))
	st.assume(sx("<=", "0", v))
	return v
}

func (r *FnRun) mapInit(st *State, m string) {
	r.setHeap(st, "I", sx("store", st.heap["I"], r.mapLenCell(m), "0"))
	// all keys absent
	old := st.heap["B"]
	n := r.fresh("HB", heapSort("B"))
	st.assume(fmt.Sprintf("(forall ((r Ref)) (! (= (select %s r) (and (not (and ((_ is elt) r) (= (ebase r) %s))) (select %s r))) :pattern ((select %s r))))", n, m, old, n))
	st.heap["B"] = n
}

func (r *FnRun) execMapUpdate(st *State, x *ssa.MapUpdate) {
	m := r.val(st, x.Map)
	k := r.val(st, x.Key)
	v := r.val(st, x.Value)
	cell := sx("elt", m.S, r.mapKey(k))
	r.checkFrameCall(st, x, []modItem{{kind: "star", ref: m.S, src: "map update"}}, "mapupdate")
	present := sx("select", st.heap["B"], cell)
	ln := sx("select", st.heap["I"], r.mapLenCell(m.S))
	r.setHeap(st, "I", sx("store", st.heap["I"], r.mapLenCell(m.S), sIte(present, ln, sAdd(ln, "1"))))
	r.setHeap(st, "B", sx("store", st.heap["B"], cell, "true"))
	mt := x.Map.Type().Underlying().(*types.Map)
	r.store(st, cell, r.coerce(v, mt.Elem()))
}

func (r *FnRun) mapDelete(st *State, site ssa.Instruction, m, k Val) {
	cell := sx("elt", m.S, r.mapKey(k))
	r.checkFrameCall(st, site, []modItem{{kind: "star", ref: m.S, src: "map delete"}}, "delete")
	present := sx("select", st.heap["B"], cell)
	ln := sx("select", st.heap["I"], r.mapLenCell(m.S))
	r.setHeap(st, "I", sx("store", st.heap["I"], r.mapLenCell(m.S), sIte(present, sSub(ln, "1"), ln)))
	r.setHeap(st, "B", sx("store", st.heap["B"], cell, "false"))
}

func (r *FnRun) execLookup(st *State, x *ssa.Lookup) {
	m := r.val(st, x.X)
	k := r.val(st, x.Index)
	if m.K == KSeq {
		// string index
		r.check(st, "safe.index", "", x, sAnd(sx("<=", "0", k.S), sx("<", k.S, sx("blen", m.S))), "index in range of string")
		st.vals[x] = intVal(sx("bat", m.S, k.S), x.Type())
		return
	}
	mt := x.X.Type().Underlying().(*types.Map)
	cell := sx("elt", m.S, r.mapKey(k))
	present := r.fresh("present", "Bool")
	st.assume(sEq(present, sx("select", st.heap["B"], cell)))
	val := r.load(st, cell, mt.Elem(), "mapval")
	z := zeroVal(mt.Elem())
	// absent => zero value
	var res Val
	switch val.K {
	case KInt, KBool, KRef, KSeq:
		res = val
		res.S = sIte(present, val.S, z.S)
	case KSlice:
		res = Val{K: KSlice, T: val.T, Bas: sIte(present, val.Bas, "null"), Off: sIte(present, val.Off, "0"), Len: sIte(present, val.Len, "0"), Cap: sIte(present, val.Cap, "0")}
	default:
		res = val
	}
	if x.CommaOk {
		st.vals[x] = Val{K: KTuple, T: x.Type(), Fs: []Val{res, boolVal(present)}}
	} else {
		st.vals[x] = res
	}
}

func (r *FnRun) execNext(st *State, x *ssa.Next) {
	rg := x.Iter.(*ssa.Range)
	coll := r.rangeOf()[rg]
	tu := x.Type().(*types.Tuple)
	ok := r.fresh("next.ok", "Bool")
	if x.IsString {
		k := r.freshVal(st, tu.At(1).Type(), "next.k")
		v := r.freshVal(st, tu.At(2).Type(), "next.v")
		st.assume(sImp(ok, sAnd(sx("<=", "0", k.S), sx("<", k.S, sx("blen", coll.S)))))
		st.vals[x] = Val{K: KTuple, T: tu, Fs: []Val{boolVal(ok), k, v}}
		return
	}
	mt := rg.X.Type().Underlying().(*types.Map)
	k := r.freshVal(st, mt.Key(), "next.k")
	cell := sx("elt", coll.S, r.mapKey(k))
	st.assume(sImp(ok, sx("select", st.heap["B"], cell)))
	v := r.load(st, cell, mt.Elem(), "next.v")
	st.vals[x] = Val{K: KTuple, T: tu, Fs: []Val{boolVal(ok), k, v}}
}

// ---------- channels (ghost: blocked counter, received sums) ----------

func (r *FnRun) ghostCell(id int) string { return sx("fld", ghostRoot, fmt.Sprint(id)) }

func (r *FnRun) incBlocked(st *State) {
	c := r.ghostCell(1)
	r.setHeap(st, "I", sx("store", st.heap["I"], c, sAdd(sx("select", st.heap["I"], c), "1")))
}

func (r *FnRun) recordRecv(st *State, ch string, v Val) {
	cnt := sx("fld", ch, "902")
	pc := sx("fld", ch, "908")
	h := sx("store", st.heap["I"], pc, sAdd(sx("select", st.heap["I"], pc), "1"))
	h = sx("store", h, cnt, sAdd(sx("select", st.heap["I"], cnt), "1"))
	if v.K == KInt {
		sum := sx("fld", ch, "901")
		h = sx("store", h, sum, sAdd(sx("select", st.heap["I"], sum), v.S))
	}
	r.setHeap(st, "I", h)
	if v.K == KSlice && v.T != nil && isByteSlice(v.T) {
		// ghost: concatenation of all byte chunks received from this channel
		cat := sx("fld", ch, "906")
		r.setHeap(st, "S", sx("store", st.heap["S"], cat, sx("bcat", sx("select", st.heap["S"], cat), r.seqOfSlice(st, v))))
	}
}

func (r *FnRun) execRecv(st *State, x *ssa.UnOp, ch Val) {
	r.incBlocked(st)
	st.assume(sNot(sEq(ch.S, "null"))) // receive from a nil channel never completes
	et := x.X.Type().Underlying().(*types.Chan).Elem()
	v := r.freshVal(st, et, "recv")
	r.recordRecv(st, ch.S, v)
	if x.CommaOk {
		ok := r.fresh("recv.ok", "Bool")
		// ok == false only on a closed (and drained) channel, and then the value is the zero value
		st.assume(sImp(sNot(ok), sx("select", st.heap["B"], sx("fld", ch.S, "904"))))
		if v.K == KSlice {
			st.assume(sImp(sNot(ok), sAnd(sEq(v.Bas, "null"), sEq(v.Len, "0"))))
		}
		st.vals[x] = Val{K: KTuple, T: x.Type(), Fs: []Val{v, boolVal(ok)}}
		return
	}
	st.vals[x] = v
}

func (r *FnRun) execSend(st *State, x *ssa.Send) {
	ch := r.val(st, x.Chan)
	sv := r.val(st, x.X)
	r.incBlocked(st)
	st.assume(sNot(sEq(ch.S, "null"))) // send on a nil channel never completes
	// a send on a closed channel panics
	closed := sx("select", st.heap["B"], sx("fld", ch.S, "904"))
	if site := r.recoverSite(st); site != nil {
		// the function recovers: the panic is a second way out, through the deferred calls
		stP := st.clone()
		stP.assume(closed)
		r.unwind(stP, site)
		st.assume(sNot(closed))
	} else {
		r.check(st, "safe.send", "", x, sNot(closed), "send on a channel that is not closed")
	}
	cnt := sx("fld", ch.S, "903")
	r.setHeap(st, "I", sx("store", st.heap["I"], cnt, sAdd(sx("select", st.heap["I"], cnt), "1")))
	if sv.K == KInt {
		sum := sx("fld", ch.S, "905")
		r.setHeap(st, "I", sx("store", st.heap["I"], sum, sAdd(sx("select", st.heap["I"], sum), sv.S)))
	}
	if sv.K == KSlice && sv.T != nil && isByteSlice(sv.T) {
		cat := sx("fld", ch.S, "907")
		r.setHeap(st, "S", sx("store", st.heap["S"], cat, sx("bcat", sx("select", st.heap["S"], cat), r.seqOfSlice(st, sv))))
	}
}

func (r *FnRun) execSelect(st *State, x *ssa.Select) {
	// result tuple: (index int, recvOk bool, r0, r1, ...)
	tu := x.Type().(*types.Tuple)
	idx := r.fresh("sel.idx", "Int")
	n := len(x.States)
	lo := "0"
	if !x.Blocking {
		lo = "(- 1)"
	} else {
		r.incBlocked(st)
	}
	st.assume(sAnd(sx("<=", lo, idx), sx("<", idx, fmt.Sprint(n))))
	fs := []Val{intVal(idx, types.Typ[types.Int]), boolVal(r.fresh("sel.ok", "Bool"))}
	ri := 2
	for i, s := range x.States {
		ch := r.val(st, s.Chan)
		// a case on a nil channel is never ready
		st.assume(sImp(sEq(idx, fmt.Sprint(i)), sNot(sEq(ch.S, "null"))))
		if s.Dir == types.RecvOnly {
			v := r.freshVal(st, tu.At(ri).Type(), fmt.Sprintf("sel.r%d", i))
			fs = append(fs, v)
			ri++
			// the select listens on this channel whichever case is taken
			pc := sx("fld", ch.S, "908")
			r.setHeap(st, "I", sx("store", st.heap["I"], pc, sAdd(sx("select", st.heap["I"], pc), "1")))
			// ghost accounting only when this case is the one taken
			cnt := sx("fld", ch.S, "902")
			sum := sx("fld", ch.S, "901")
			taken := sEq(idx, fmt.Sprint(i))
			h := st.heap["I"]
			h2 := sx("store", h, cnt, sAdd(sx("select", h, cnt), "1"))
			if v.K == KInt {
				h2 = sx("store", h2, sum, sAdd(sx("select", h, sum), v.S))
			}
			r.setHeap(st, "I", sIte(taken, h2, h))
			if v.K == KSlice && v.T != nil && isByteSlice(v.T) {
				cat := sx("fld", ch.S, "906")
				hs := st.heap["S"]
				r.setHeap(st, "S", sIte(taken, sx("store", hs, cat, sx("bcat", sx("select", hs, cat), r.seqOfSlice(st, v))), hs))
			}
			if !x.Blocking {
				// a receive from a closed channel is always ready: the default branch is not taken
				st.assume(sImp(sx("select", st.heap["B"], sx("fld", ch.S, "904")), sNot(sEq(idx, "(- 1)"))))
			}
		} else {
			r.val(st, s.Send)
			cnt := sx("fld", ch.S, "903")
			taken := sEq(idx, fmt.Sprint(i))
			h := st.heap["I"]
			r.setHeap(st, "I", sIte(taken, sx("store", h, cnt, sAdd(sx("select", h, cnt), "1")), h))
		}
	}
	st.vals[x] = Val{K: KTuple, T: tu, Fs: fs}
}

// ---------- loops ----------

func (r *FnRun) loopEnv(st *State, b *ssa.BasicBlock) *Env {
	env := &Env{r: r, st: st, old: r.entry, vars: map[string]Val{}, fn: r.Fn, block: b}
	if r.Fn.Pkg != nil {
		env.pkg = r.Fn.Pkg.Pkg
	} else if r.Fn.Parent() != nil && r.Fn.Parent().Pkg != nil {
		env.pkg = r.Fn.Parent().Pkg.Pkg
	}
	for k, v := range r.entryEnv.vars {
		env.vars[k] = v
	}
	return env
}

func (r *FnRun) checkInvariants(st *State, li *loopInfo, kind string, b *ssa.BasicBlock) {
	if li.spec == nil {
		return
	}
	if len(li.spec.Invariants) > 0 && r.C.Opts[fmt.Sprintf("dead_loop_%s.%d", strings.TrimPrefix(kind, "inv."), li.ord)] == "" {
		// vacuity guard: some path must reach the loop (init) and some path must come round it (keep);
		// otherwise the invariant obligations of that kind are vacuously true
		what := map[string]string{"inv.init": "loop_entry", "inv.keep": "loop_back"}[kind]
		cv := r.oblig(st, "cover", fmt.Sprintf("%s#%d", what, li.ord), nil, "false", "some path reaches this point of the loop under the accumulated hypotheses (at least one must not be refutable)", r.C.Serves)
		cv.Cover = true
		cv.AnyPath = true
		cv.Pos = r.W.Prog.Fset.Position(b.Instrs[0].Pos())
	}
	for i, inv := range li.spec.Invariants {
		env := r.loopEnv(st, b)
		g := env.eval(inv.Expr)
		if env.err != nil {
			r.unstatable(st, kind, fmt.Sprintf("loop%d.%d", li.ord, i+1), inv, env.err)
			continue
		}
		lbl := fmt.Sprintf("loop%d.%d", li.ord, i+1)
		if inv.Name != "" {
			lbl = fmt.Sprintf("loop%d.%s", li.ord, inv.Name)
		}
		props := r.C.Serves
		if len(inv.Props) > 0 {
			props = inv.Props
		}
		o := r.oblig(st, kind, lbl, nil, g.S, "loop invariant: "+inv.Src, props)
		o.Clause = inv.Src
		o.Pos = r.W.Prog.Fset.Position(b.Instrs[0].Pos())
		st.assume(g.S)
	}
}

func (r *FnRun) assumeInvariants(st *State, li *loopInfo, b *ssa.BasicBlock, cut *loopCut) {
	if li.spec == nil {
		return
	}
	for _, inv := range li.spec.Invariants {
		env := r.loopEnv(st, b)
		g := env.eval(inv.Expr)
		if env.err != nil {
			continue // reported by checkInvariants
		}
		st.assume(g.S)
	}
	for _, d := range li.spec.Decreases {
		env := r.loopEnv(st, b)
		g := env.eval(d.Expr)
		if env.err != nil {
			r.errorf("%s:%d: %v", d.File, d.Line, env.err)
			return
		}
		m := r.fresh("variant", "Int")
		st.assume(sEq(m, g.S))
		cut.measures = append(cut.measures, m)
	}
}

func (r *FnRun) checkDecreases(st *State, li *loopInfo, cut *loopCut, b *ssa.BasicBlock) {
	if li.spec == nil || len(li.spec.Decreases) == 0 {
		return
	}
	// lexicographic
	var cur []string
	for _, d := range li.spec.Decreases {
		env := r.loopEnv(st, b)
		g := env.eval(d.Expr)
		if env.err != nil {
			r.errorf("%s:%d: %v", d.File, d.Line, env.err)
			return
		}
		cur = append(cur, g.S)
	}
	var disj []string
	for i := range cur {
		var c []string
		for j := 0; j < i; j++ {
			c = append(c, sEq(cur[j], cut.measures[j]))
		}
		c = append(c, sx("<", cur[i], cut.measures[i]), sx("<=", "0", cut.measures[i]))
		disj = append(disj, sAnd(c...))
	}
	props := r.C.Serves
	if len(li.spec.Decreases[0].Props) > 0 {
		props = li.spec.Decreases[0].Props
	}
	o := r.oblig(st, "dec", fmt.Sprintf("loop%d", li.ord), nil, sOr(disj...), "loop variant decreases and is bounded below", props)
	o.Pos = r.W.Prog.Fset.Position(b.Instrs[0].Pos())
}

// loopWrites: which heaps may be written inside the loop.
func (r *FnRun) loopWrites(li *loopInfo) map[string]bool {
	w := map[string]bool{}
	all := func() {
		for _, k := range heapKinds {
			w[k] = true
		}
	}
	for b := range li.blocks {
		for _, in := range b.Instrs {
			switch x := in.(type) {
			case *ssa.Store:
				switch kindOf(derefType(x.Addr.Type())) {
				case KInt:
					w["I"], w["A"] = true, true
				case KBool:
					w["B"] = true
				case KRef, KOpaque:
					w["R"] = true
				case KSeq:
					w["S"] = true
				case KArr:
					w["A"] = true
				case KSlice:
					w["R"], w["I"] = true, true
				case KIface:
					w["R"], w["I"] = true, true
				default:
					all()
				}
			case *ssa.MapUpdate:
				all()
			case *ssa.Send, *ssa.Select:
				w["I"] = true
			case *ssa.UnOp:
				if x.Op.String() == "<-" {
					w["I"] = true
				}
			case *ssa.Alloc, *ssa.MakeSlice:
				all()
			case ssa.CallInstruction:
				cc := x.Common()
				if bi, ok := cc.Value.(*ssa.Builtin); ok {
					switch bi.Name() {
					case "len", "cap", "min", "max":
						continue
					case "copy", "append":
						w["A"] = true
						continue
					}
					all()
					continue
				}
				var c *Contract
				if cc.IsInvoke() {
					c = r.W.IfaceSpec["("+types.TypeString(cc.Value.Type(), nil)+")."+cc.Method.Name()]
					if c == nil {
						c = r.W.IfaceSpec[cc.Method.FullName()]
					}
				} else if f := cc.StaticCallee(); f != nil {
					c = r.W.ContractOf[f]
				}
				if c == nil {
					all()
					continue
				}
				if c.Pure || len(c.Modifies) == 0 {
					continue
				}
				all()
			}
		}
	}
	return w
}

func (r *FnRun) havocLoop(st *State, li *loopInfo, b *ssa.BasicBlock) {
	// phis
	for _, in := range b.Instrs {
		ph, ok := in.(*ssa.Phi)
		if !ok {
			break
		}
		st.vals[ph] = r.freshVal(st, ph.Type(), "loop."+ph.Comment)
	}
	// every SSA value defined inside the loop is recomputed when executed;
	// drop stale ones so that they cannot be read before being defined
	for bb := range li.blocks {
		for _, in := range bb.Instrs {
			if v, ok := in.(ssa.Value); ok {
				if _, isPhi := in.(*ssa.Phi); isPhi && bb == b {
					continue
				}
				delete(st.vals, v)
			}
		}
	}
	w := r.loopWrites(li)
	items := r.frame
	explicit := false
	if li.spec != nil && li.spec.HasMod {
		env := r.loopEnv(st, b)
		items = env.evalModItems(li.spec.Modifies)
		if env.err != nil {
			r.errorf("%s: loop %d modifies: %v", r.shortFn(), li.ord, env.err)
			return
		}
		explicit = true
	}
	allocNow := st.alloc
	// local objects allocated before the loop and never written inside it keep their contents
	var keepLocal []string
	for _, a := range r.loopUntouchedAllocs(li) {
		if v, ok := st.vals[a]; ok {
			ref := v.S
			if v.K == KSlice {
				ref = v.Bas
			}
			if strings.HasPrefix(ref, "(obj new.") {
				keepLocal = append(keepLocal, ref)
			}
		}
	}
	localKeep := func(v string) string {
		var ds []string
		for _, o := range keepLocal {
			ds = append(ds, sEq(sx("rootref", v), o))
		}
		return sOr(ds...)
	}
	for _, k := range []string{"I", "B", "R", "S"} {
		if !w[k] {
			continue
		}
		old := st.heap[k]
		n := r.fresh("H"+k, heapSort(k))
		keep := sNot(inFrameCell(items, k, "r"))
		if !explicit {
			keep = sAnd(sx("<", sx("rootid", "r"), r.alloc0), keep)
		} else {
			keep = sAnd(sx("<", sx("rootid", "r"), allocNow), keep)
		}
		keep = sOr(keep, localKeep("r"))
		// ghost globals (blocked, now) are part of every loop frame unless listed
		st.assume(fmt.Sprintf("(forall ((r Ref)) (! (=> %s (= (select %s r) (select %s r))) :pattern ((select %s r))))", keep, n, old, n))
		st.heap[k] = n
	}
	if w["A"] {
		old := st.heap["A"]
		n := r.fresh("HA", heapSort("A"))
		keepB := sx("<", sx("rootid", "b"), r.alloc0)
		if explicit {
			keepB = sx("<", sx("rootid", "b"), allocNow)
		}
		if lk := localKeep("b"); lk != "false" {
			// untouched local arrays: stated separately (they are never in the frame)
			st.assume(fmt.Sprintf("(forall ((b Ref)) (! (=> %s (= (select %s b) (select %s b))) :pattern ((select %s b))))", lk, n, old, n))
		}
		hasElems := false
		for _, it := range items {
			if it.kind == "elems" && it.elemInt {
				hasElems = true
			}
		}
		if hasElems {
			st.assume(fmt.Sprintf("(forall ((b Ref) (i Int)) (! (=> (and %s (not %s)) (= (select (select %s b) i) (select (select %s b) i))) :pattern ((select (select %s b) i))))",
				keepB, inFrameArr(items, "b", "i"), n, old, n))
		} else {
			// only whole arrays are in the frame: untouched arrays are equal as arrays
			st.assume(fmt.Sprintf("(forall ((b Ref)) (! (=> (and %s (not %s)) (= (select %s b) (select %s b))) :pattern ((select %s b))))",
				keepB, inFrameArr(items, "b", "0"), n, old, n))
		}
		st.heap["A"] = n
	}
	r.bumpAlloc(st)
	r.assumeGlobalInvs(st)
}

// ---------- function entry / exit ----------

// successReturn: the return statement reports success - every error-typed result is the constant nil
// (or the function has no error result).  Only these must be reachable: `if err != nil { return err }`
// after a callee whose trusted specification never fails is legitimately dead.
func (r *FnRun) successReturn(site ssa.Instruction) bool {
	ret, ok := site.(*ssa.Return)
	if !ok {
		return false
	}
	errT := types.Universe.Lookup("error").Type()
	for _, op := range ret.Results {
		if types.Identical(op.Type(), errT) {
			c, isConst := op.(*ssa.Const)
			if !isConst || !c.IsNil() {
				return false
			}
		}
	}
	return true
}

// returnOrdinal: 1-based position of a return instruction among the returns of the function under
// verification, in source order (0 if the instruction is not one of them).
func (r *FnRun) returnOrdinal(site ssa.Instruction) int {
	ret, ok := site.(*ssa.Return)
	if !ok || ret.Parent() != r.Fn {
		return 0
	}
	var rets []*ssa.Return
	for _, b := range r.Fn.Blocks {
		for _, in := range b.Instrs {
			if x, ok := in.(*ssa.Return); ok {
				rets = append(rets, x)
			}
		}
	}
	sort.SliceStable(rets, func(i, j int) bool { return rets[i].Pos() < rets[j].Pos() })
	for i, x := range rets {
		if x == ret {
			return i + 1
		}
	}
	return 0
}

func (r *FnRun) atReturn(st *State, res []Val, site ssa.Instruction) {
	// vacuity guard: some return of the function must be reachable
	cv := r.oblig(st, "cover", "return", nil, "false", "some return is reachable under the accumulated hypotheses (at least one path must not be refutable)", r.C.Serves)
	cv.Cover = true
	cv.AnyPath = true
	// ... and so must EVERY return statement: a return that no path reaches under the contracts in
	// force (inconsistent specs, an engine slip, a precondition that is too strong) would make every
	// postcondition checked there vacuously true
	if k := r.returnOrdinal(site); k > 0 && r.successReturn(site) {
		if why := r.C.Opts[fmt.Sprintf("dead_return.%d", k)]; why != "" {
			r.Assump[fmt.Sprintf("%s: return statement #%d is declared dead code (%s); no path to it is required", r.shortFn(), k, why)] = true
			goto afterSiteCover
		}
		cs := r.oblig(st, "cover", fmt.Sprintf("return_site#%d", k), site, "false", "this return statement is reachable under the accumulated hypotheses (at least one path to it must not be refutable)", r.C.Serves)
		cs.Cover = true
		cs.AnyPath = true
	}
afterSiteCover:
	env := &Env{r: r, st: st, old: r.entry, vars: map[string]Val{}, fn: r.Fn}
	env.pkg = r.entryEnv.pkg
	for k, v := range r.entryEnv.vars {
		env.vars[k] = v
	}
	for i, n := range r.C.Results {
		if i < len(res) {
			env.vars[n] = res[i]
		}
	}
	if len(res) == 1 {
		env.vars["result"] = res[0]
	}
	for _, gs := range r.C.GhostSets {
		v := env.eval(gs.RHS)
		ref, _, sort := env.evalAddr(gs.LHS)
		if env.err != nil || sort == "" {
			if env.err == nil {
				env.err = fmt.Errorf("left side is not a ghost cell")
			}
			r.unstatable(st, "post", "ghostset", &Clause{Src: gs.Src}, env.err)
			env.err = nil
			continue
		}
		hk := heapOfSort(sort)
		val := v.S
		if v.K == KSlice || v.K == KIface || v.K == KStruct {
			r.unstatable(st, "post", "ghostset", &Clause{Src: gs.Src}, fmt.Errorf("right side must be a scalar, reference or sequence"))
			continue
		}
		// the ghost cell must be inside the declared frame (callers havoc only the frame)
		fo := r.oblig(st, "frame", "ghostset", nil, sOr(sx(">=", sx("rootid", ref), r.alloc0), inFrameCell(r.frame, hk, ref)), "ghostset target is inside the modifies frame: "+gs.Src, r.C.Serves)
		fo.Clause = gs.Src
		r.setHeap(st, hk, sx("store", st.heap[hk], ref, val))
	}
	for i, en := range r.C.Ensures {
		g := env.eval(en.Expr)
		if env.err != nil {
			r.unstatable(st, "post", fmt.Sprint(i+1), en, env.err)
			env.err = nil
			continue
		}
		lbl := fmt.Sprintf("%d", i+1)
		if en.Name != "" {
			lbl = en.Name
		}
		props := r.C.Serves
		if len(en.Props) > 0 {
			props = en.Props
		}
		o := r.oblig(st, "post", lbl, nil, g.S, "postcondition: "+en.Src, props)
		o.Clause = en.Src
		o.Pos = r.W.Prog.Fset.Position(site.Pos())
		// later clauses may use earlier ones (proof hints are ordinary clauses)
		if !strings.Contains(g.S, "(forall ") {
			st.assume(g.S)
		}
	}
}

func (r *FnRun) atPanic(st *State, x *ssa.Panic) {
	// a panic declared by panics_if is specified behaviour
	if len(r.C.PanicsIf) > 0 {
		env := &Env{r: r, st: st, old: r.entry, vars: map[string]Val{}, fn: r.Fn, pkg: r.entryEnv.pkg}
		for k, v := range r.entryEnv.vars {
			env.vars[k] = v
		}
		var ds []string
		for _, p := range r.C.PanicsIf {
			// evaluated over entry values
			g := env.eval(&ast.CallExpr{Fun: ast.NewIdent("old"), Args: []ast.Expr{p.Expr}})
			if env.err != nil {
				r.errorf("%s:%d: %v", p.File, p.Line, env.err)
				return
			}
			ds = append(ds, g.S)
		}
		r.check(st, "safe.panic", "", x, sOr(ds...), "explicit panic only under the declared panics_if condition")
		return
	}
	r.check(st, "safe.panic", "", x, "false", "explicit panic is unreachable")
}

func (w *World) tagTypes() map[int]types.Type {
	if w.tagTypeMap == nil {
		w.tagTypeMap = map[int]types.Type{}
	}
	return w.tagTypeMap
}

// constGlobal: package-level variables that are never stored outside init
// and hold a value computable from constants are not modelled in general;
// only read-only numeric globals with a constant initialiser are inlined.
func (r *FnRun) constGlobal(st *State, g *ssa.Global, t types.Type) (Val, bool) {
	return Val{}, false
}

var _ = sort.Strings

// isFreshRef: the reference is syntactically rooted in an object allocated
// by this invocation.
func (r *FnRun) isFreshRef(p string) bool {
	for {
		switch {
		case strings.HasPrefix(p, "(fld ") || strings.HasPrefix(p, "(elt "):
			parts := splitSexp(p[5 : len(p)-1])
			if len(parts) != 2 {
				return false
			}
			p = parts[0]
		case strings.HasPrefix(p, "(obj new."):
			return true
		default:
			return false
		}
	}
}

// unstatable: a contract clause that can no longer be evaluated on the current
// code (for instance a local variable it names has disappeared) is an
// undischarged obligation, not a tool error: it discharged on the tree the
// contract was written for.
func (r *FnRun) unstatable(st *State, kind, lbl string, cl *Clause, err error) {
	if cl.Name != "" {
		lbl = cl.Name
		if strings.HasPrefix(kind, "inv") {
			lbl = "loop." + cl.Name
		}
	}
	props := r.C.Serves
	if len(cl.Props) > 0 {
		props = cl.Props
	}
	o := r.oblig(st, kind, lbl, nil, "false", "clause cannot be stated on the current code ("+err.Error()+"): "+cl.Src, props)
	o.Clause = cl.Src
	o.NoSolve = "contract clause no longer evaluable: " + err.Error()
}

// assumeFieldTypes: type facts (tyof / alen / elty) for the array-typed and
// struct-typed fields of the object at ref, so that a wide frame x.* can be
// told apart from arrays of other types.
func (r *FnRun) assumeFieldTypes(st *State, ref string, t types.Type, depth int) {
	if t == nil || depth > 2 {
		return
	}
	s, ok := t.Underlying().(*types.Struct)
	if !ok || isTimeTime(t) {
		return
	}
	for i := 0; i < s.NumFields(); i++ {
		ft := s.Field(i).Type()
		fr := sx("fld", ref, fmt.Sprint(i))
		switch ft.Underlying().(type) {
		case *types.Array:
			r.assumeTy(st, fr, types.NewPointer(ft))
		case *types.Struct:
			r.assumeTy(st, fr, types.NewPointer(ft))
			st.assume(sEq(sx("elty", fr), "0"))
			r.assumeFieldTypes(st, fr, ft, depth+1)
		case *types.Slice, *types.Interface:
			st.assume(sEq(sx("elty", fr), "0"))
			for j := 0; j < 4; j++ {
				st.assume(sEq(sx("elty", sx("fld", fr, fmt.Sprint(j))), "0")) // header cells
			}
		default:
			st.assume(sEq(sx("elty", fr), "0")) // not an array: never the base of a slice
			for j := 0; j < 4; j++ {
				st.assume(sEq(sx("elty", sx("fld", fr, fmt.Sprint(j))), "0"))
			}
		}
	}
}

// loopUntouchedAllocs: allocations made outside the loop whose storage the loop
// body can not write: no store through an address derived from them inside the
// loop and no call inside the loop receives a value derived from them.
func (r *FnRun) loopUntouchedAllocs(li *loopInfo) []ssa.Value {
	derived := func(v ssa.Value) ssa.Value {
		for {
			switch x := v.(type) {
			case *ssa.FieldAddr:
				v = x.X
			case *ssa.IndexAddr:
				v = x.X
			case *ssa.Slice:
				v = x.X
			case *ssa.ChangeType:
				v = x.X
			case *ssa.Convert:
				if isBytesOfString(x) {
					return v // []byte(s) allocates a private copy
				}
				v = x.X
			case *ssa.Alloc, *ssa.MakeSlice:
				return v
			default:
				return nil
			}
		}
	}
	touched := map[ssa.Value]bool{}
	for b := range li.blocks {
		for _, in := range b.Instrs {
			switch x := in.(type) {
			case *ssa.Store:
				if a := derived(x.Addr); a != nil {
					touched[a] = true
				}
				if a := derived(x.Val); a != nil {
					touched[a] = true // address escapes into memory
				}
			case ssa.CallInstruction:
				for _, arg := range x.Common().Args {
					if a := derived(arg); a != nil {
						touched[a] = true
					}
				}
				if a := derived(x.Common().Value); a != nil {
					touched[a] = true
				}
			case *ssa.MakeInterface:
				if a := derived(x.X); a != nil {
					touched[a] = true
				}
			case *ssa.Phi:
				for _, e := range x.Edges {
					if a := derived(e); a != nil {
						touched[a] = true
					}
				}
			}
		}
	}
	// an address that escapes anywhere (stored, boxed, passed to a call) may be
	// written through another name: treat as touched
	for _, b := range r.Fn.Blocks {
		for _, in := range b.Instrs {
			switch x := in.(type) {
			case *ssa.Store:
				if a := derived(x.Val); a != nil {
					touched[a] = true
				}
			case ssa.CallInstruction:
				if bi, ok := x.Common().Value.(*ssa.Builtin); ok && (bi.Name() == "len" || bi.Name() == "cap") {
					continue // reads the header only
				}
				for _, arg := range x.Common().Args {
					if a := derived(arg); a != nil {
						touched[a] = true
					}
				}
			case *ssa.MakeInterface:
				if a := derived(x.X); a != nil {
					touched[a] = true
				}
			case *ssa.MakeClosure:
				for _, bd := range x.Bindings {
					if a := derived(bd); a != nil {
						touched[a] = true
					}
				}
			}
		}
	}
	var out []ssa.Value
	for _, b := range r.Fn.Blocks {
		if li.blocks[b] {
			continue
		}
		for _, in := range b.Instrs {
			switch x := in.(type) {
			case *ssa.Alloc:
				if !touched[x] {
					out = append(out, x)
				}
			case *ssa.MakeSlice:
				if !touched[x] {
					out = append(out, x)
				}
			case *ssa.Convert:
				if isBytesOfString(x) && !touched[x] {
					out = append(out, x)
				}
			}
		}
	}
	return out
}

func isBytesOfString(x *ssa.Convert) bool {
	if !isByteSlice(x.Type()) {
		return false
	}
	b, ok := x.X.Type().Underlying().(*types.Basic)
	return ok && b.Info()&types.IsString != 0
}

// assumeGlobalInvs: invariants over init-only package-level variables hold in every state.
func (r *FnRun) assumeGlobalInvs(st *State) {
	for _, gi := range r.W.Specs.GlobalInvs {
		// only where the package of the invariant is visible
		fp := r.Fn.Pkg
		if fp == nil && r.Fn.Parent() != nil {
			fp = r.Fn.Parent().Pkg
		}
		if fp == nil {
			continue
		}
		vis := fp.Pkg.Path() == gi.Pkg
		for _, imp := range fp.Pkg.Imports() {
			if imp.Path() == gi.Pkg {
				vis = true
			}
		}
		if !vis {
			continue
		}
		env := &Env{r: r, st: st, vars: map[string]Val{}}
		if sp := r.W.SSAPkgs[gi.Pkg]; sp != nil {
			env.pkg = sp.Pkg
		}
		v := env.eval(gi.Body)
		if env.err != nil {
			r.errorf("%s: globalinv %s: %v", gi.File, gi.Name, env.err)
			return
		}
		st.assume(v.S)
		r.Assump["global invariant "+gi.Name+" (variables written only by the package initialiser; their backing arrays are assumed immutable): "+gi.Src] = true
	}
}

func derefOrSelf(t types.Type) types.Type {
	if d := derefType(t); d != nil {
		return d
	}
	return t
}

// lockHook: Lock/Unlock of a sync.Mutex embedded in a type that declares a lock invariant.
func (r *FnRun) lockHook(st *State, site ssa.Instruction, f *ssa.Function, ssaArgs []ssa.Value, args []Val) bool {
	if len(r.W.Specs.LockInvs) == 0 || len(ssaArgs) != 1 {
		return false
	}
	name := f.String()
	if name != "(*sync.Mutex).Lock" && name != "(*sync.Mutex).Unlock" {
		return false
	}
	fa, ok := ssaArgs[0].(*ssa.FieldAddr)
	if !ok {
		return false
	}
	li := r.W.Specs.LockInvs[typeKey(derefType(fa.X.Type()))]
	if li == nil {
		return false
	}
	owner := r.val(st, fa.X)
	env := &Env{r: r, st: st, old: r.entry, vars: map[string]Val{"self": owner}, fn: r.Fn}
	if r.entryEnv != nil {
		env.pkg = r.entryEnv.pkg
	}
	if name == "(*sync.Mutex).Lock" {
		items := env.evalModItems(li.Items)
		if env.err != nil {
			r.errorf("%s: lockinv %s: %v", li.File, li.Type, env.err)
			return true
		}
		r.checkFrameCall(st, site, items, "Lock")
		r.havocItems(st, items)
		r.bumpAlloc(st)
		r.assumeGlobalInvs(st)
		env2 := &Env{r: r, st: st, old: r.entry, vars: map[string]Val{"self": owner}, fn: r.Fn, pkg: env.pkg}
		g := env2.eval(li.Inv)
		if env2.err != nil {
			r.errorf("%s: lockinv %s: %v", li.File, li.Type, env2.err)
			return true
		}
		st.assume(g.S)
		r.Assump["lock invariant of "+li.Type+" assumed when its mutex is acquired: the protected state is arbitrary (other goroutines) but satisfies the invariant, which the constructor establishes and every Unlock must re-establish; sync.Mutex mutual exclusion is trusted"] = true
		return true
	}
	g := env.eval(li.Inv)
	if env.err != nil {
		r.errorf("%s: lockinv %s: %v", li.File, li.Type, env.err)
		return true
	}
	props := []string(nil)
	if r.C != nil {
		props = r.C.Serves
	}
	o := r.oblig(st, "lockinv", "unlock", site, g.S, "lock invariant of "+li.Type+" holds when the mutex is released", props)
	o.Clause = li.Src
	return true
}
