package main

import (
	"fmt"
	"go/types"
	"strconv"
	"strings"
	"sync"

	"golang.org/x/tools/go/ssa"
)

// verifyFunc generates all obligations of fn against contract c.
func (w *World) verifyFunc(fn *ssa.Function, c *Contract) *FnRun {
	r := &FnRun{W: w, Fn: fn, C: c, ord: map[string]int{}, siteOrd: map[ssa.Instruction]map[string]int{},
		Assump: map[string]bool{}, Unknown: map[string]bool{}, Trusted: map[string]bool{}, inputs: map[string]string{},
		maxPaths: 4000, spans: map[*ssa.Function]map[ssa.Instruction]int{}}
	if v := c.Opts["maxpaths"]; v != "" {
		if n, err := strconv.Atoi(v); err == nil {
			r.maxPaths = n
		}
	}
	if fn.Blocks == nil {
		r.errorf("%s has no body", fn.String())
		return r
	}
	r.loops = findLoops(fn)
	for _, li := range r.loops {
		li.spec = c.Loops[li.ord]
		if v := c.Opts[fmt.Sprintf("unroll.%d", li.ord)]; v != "" {
			n, _ := strconv.Atoi(v)
			li.unroll = n
		}
	}
	for n := range c.Loops {
		found := false
		for _, li := range r.loops {
			if li.ord == n {
				found = true
			}
		}
		if !found {
			r.errorf("%s:%d: contract for %s refers to loop %d, function has %d loops", c.File, c.Line, c.Key, n, len(r.loops))
			return r
		}
	}
	st := &State{vals: map[ssa.Value]Val{}, heap: map[string]string{}, ghost: map[string]Val{}, cuts: map[*ssa.BasicBlock]*loopCut{}, visits: map[*ssa.BasicBlock]int{}, memo: map[string]Val{}}
	for _, k := range heapKinds {
		st.heap[k] = r.fresh("H"+k+"0", heapSort(k))
	}
	r.alloc0 = r.fresh("alloc0", "Int")
	st.alloc = r.alloc0
	st.assume(sx("<=", "0", r.alloc0))
	env := &Env{r: r, st: st, vars: map[string]Val{}, fn: fn}
	if fn.Pkg != nil {
		env.pkg = fn.Pkg.Pkg
	} else if fn.Parent() != nil && fn.Parent().Pkg != nil {
		env.pkg = fn.Parent().Pkg.Pkg
	}
	for i, p := range fn.Params {
		v := r.freshVal(st, p.Type(), "in."+c.Params[i])
		st.vals[p] = v
		env.vars[c.Params[i]] = v
		r.recordInput(c.Params[i], v)
	}
	for _, fv := range fn.FreeVars {
		v := r.freshVal(st, fv.Type(), "fv."+fv.Name())
		st.vals[fv] = v
	}
	// ghost counters are non-negative
	st.assume(sx("<=", "0", sx("select", st.heap["I"], r.ghostCell(1))))
	st.assume(sx("<", "0", sx("select", st.heap["I"], r.ghostCell(2)))) // the clock reads a positive time
	for _, rq := range c.Requires {
		g := env.eval(rq.Expr)
		if env.err != nil {
			r.errorf("%s:%d: %v", rq.File, rq.Line, env.err)
			return r
		}
		st.assume(g.S)
	}
	r.entryEnv = env
	r.assumeGlobalInvs(st)
	r.entry = st.clone()
	env.old = r.entry
	for _, g := range c.Ghosts {
		v := env.eval(g.Expr)
		if env.err != nil {
			r.errorf("%s: ghost %s: %v", c.Key, g.Name, env.err)
			return r
		}
		env.vars[g.Name] = v
		r.recordInput(g.Name, v)
	}
	r.entryEnv = env
	r.frame = env.evalModItems(c.Modifies)
	if env.err != nil {
		r.errorf("%s: modifies: %v", c.Key, env.err)
		return r
	}
	// cover: the precondition is satisfiable (vacuity guard)
	cv := r.oblig(st, "cover", "requires", nil, "false", "precondition is satisfiable (must be SAT)", c.Serves)
	cv.Cover = true
	r.execBlock(st, fn.Blocks[0], nil)
	// an assert_at clause whose call site no longer exists asserts nothing: that is a failed
	// obligation, not a silent pass
	for _, aa := range c.AssertAt {
		if !assertAtHit[aa] {
			r.unstatable(st, "assert", sanitize(aa.Callee), aa.Clause, fmt.Errorf("no call site matches %q", aa.Callee))
		}
	}
	return r
}

func (r *FnRun) recordInput(name string, v Val) {
	switch v.K {
	case KInt, KBool, KRef, KSeq:
		r.inputs[name] = v.S
	case KSlice:
		r.inputs[name+".len"] = v.Len
		r.inputs[name+".cap"] = v.Cap
		r.inputs[name+".off"] = v.Off
		r.inputs[name+".base"] = v.Bas
	case KIface:
		r.inputs[name+".tag"] = v.Tag
	}
}

// emit renders one obligation as a complete SMT-LIB script.
func (o *Oblig) script(withModel bool) string {
	return o.scriptOpt(withModel, false)
}

// scriptLite: only the length axioms of the byte-sequence theory (sound: a
// subset of the axioms); decides most index / length / arithmetic goals fast.
func (o *Oblig) scriptLite() string {
	o.lite = true
	defer func() { o.lite = false }()
	return o.scriptOpt(true, false)
}

// scriptCOI: hypotheses restricted to the cone of influence of the goal (sound subset).
func (o *Oblig) scriptCOI(lite bool) string {
	o.coi, o.lite = true, lite
	defer func() { o.coi, o.lite = false, false }()
	return o.scriptOpt(true, false)
}

// scriptOpt: relaxed=true drops every quantified hypothesis and axiom; a model
// of the relaxed query is only a candidate and must be confirmed by replay.
func (o *Oblig) scriptOpt(withModel, relaxed bool) string {
	r := o.Run
	if r == nil {
		return "; no solver query: " + o.NoSolve + "\n"
	}
	var b strings.Builder
	if withModel {
		b.WriteString("(set-option :produce-models true)\n")
	}
	b.WriteString("(set-logic ALL)\n")
	body := strings.Builder{}
	asserts := strings.Builder{}
	var pcList []string
	for _, a := range o.PC.list() {
		if relaxed && strings.Contains(a, "(forall ") {
			continue
		}
		pcList = append(pcList, a)
	}
	var skDecls []string
	var goalAsserts []string
	if !o.Cover {
		d, a := negateGoal(o.Goal, 0)
		skDecls = d
		goalAsserts = a
	}
	if o.coi && !o.Cover {
		pcList = coneOfInfluence(pcList, goalAsserts)
	}
	for _, a := range pcList {
		asserts.WriteString("(assert ")
		asserts.WriteString(a)
		asserts.WriteString(")\n")
	}
	for _, x := range goalAsserts {
		asserts.WriteString("(assert ")
		asserts.WriteString(x)
		asserts.WriteString(")\n")
	}
	for _, gf := range r.globalFacts {
		// facts about package-level objects that occur in the query
		if i := strings.Index(gf, "(obj "); i >= 0 {
			j := strings.Index(gf[i:], ")")
			if j > 0 && strings.Contains(asserts.String(), gf[i:i+j+2]) || strings.Contains(asserts.String(), gf[i:i+j+1]+")") {
				asserts.WriteString("(assert " + gf + ")\n")
			}
		}
	}
	atext := asserts.String()
	toks := tokenSet(atext)
	var lits strings.Builder
	for _, d := range r.decls[:o.NDecl] {
		// (declare-const NAME SORT)
		if strings.HasPrefix(d, "(declare-const ") {
			rest := d[len("(declare-const "):]
			if i := strings.IndexByte(rest, ' '); i > 0 && !toks[rest[:i]] {
				continue
			}
		}
		body.WriteString(d)
		body.WriteByte('\n')
	}
	for _, d := range skDecls {
		body.WriteString(d)
		body.WriteByte('\n')
	}
	body.WriteString(atext)
	text := body.String()
	b.WriteString(prelude)
	ax := r.W.axiomText(text)
	if o.lite {
		var keep []string
		for _, l := range strings.Split(ax, "\n") {
			if strings.HasPrefix(l, "(assert (forall") && strings.Contains(l, "BSeq") || strings.HasPrefix(l, "(assert (forall ((a (Array Int Int))") || strings.HasPrefix(l, "(assert (forall ((o Int) (n Int))") {
				// keep only axioms whose conclusion is about lengths
				if !liteAxiom(l) {
					continue
				}
			}
			keep = append(keep, l)
		}
		ax = strings.Join(keep, "\n") + "\n"
	}
	if relaxed {
		var keep []string
		for _, l := range strings.Split(ax, "\n") {
			if strings.HasPrefix(l, "(assert (forall") {
				continue
			}
			keep = append(keep, l)
		}
		ax = strings.Join(keep, "\n") + "\n"
	}
	b.WriteString(ax)
	b.WriteString(text)
	b.WriteString(lits.String())
	b.WriteString("(check-sat)\n")
	if withModel {
		// values of the function inputs
		var names []string
		for k, t := range o.Inputs {
			if strings.HasPrefix(k, "str!") || strings.HasPrefix(k, "glob!") || strings.HasPrefix(k, "func!") {
				continue
			}
			if strings.HasSuffix(k, ".base") {
				continue
			}
			okDecl := true
			for tok := range tokenSet(t) {
				if strings.Contains(tok, "!") && !toks[tok] {
					okDecl = false
				}
			}
			if !okDecl {
				continue
			}
			names = append(names, k)
		}
		if len(names) > 0 {
			b.WriteString("(get-value (")
			for _, n := range names {
				b.WriteString(o.Inputs[n])
				b.WriteByte(' ')
			}
			b.WriteString("))\n")
		}
	}
	return b.String()
}

func tokenSet(text string) map[string]bool {
	m := map[string]bool{}
	start := -1
	for i := 0; i < len(text); i++ {
		c := text[i]
		if c == '(' || c == ')' || c == ' ' || c == '\n' {
			if start >= 0 {
				m[text[start:i]] = true
				start = -1
			}
		} else if start < 0 {
			start = i
		}
	}
	if start >= 0 {
		m[text[start:]] = true
	}
	return m
}

func containsSym(text, sym string) bool {
	i := 0
	for {
		j := strings.Index(text[i:], sym)
		if j < 0 {
			return false
		}
		j += i
		before := j == 0 || strings.ContainsRune("( )", rune(text[j-1]))
		after := j+len(sym) >= len(text) || strings.ContainsRune("( )", rune(text[j+len(sym)]))
		if before && after {
			return true
		}
		i = j + len(sym)
	}
}

// axiomText returns declarations + axioms needed by the query text (symbol
// reachability pruning, iterated to a fixpoint over spec functions).
func (w *World) axiomText(text string) string {
	var out strings.Builder
	groups := []axiomGroup{bseqGroup, bitGroup, floatGroup}
	// spec functions and user axioms: compute the reachable set
	all := text
	usedFn := map[string]bool{}
	usedAx := map[int]bool{}
	changed := true
	for changed {
		changed = false
		for name, sf := range w.Specs.SpecFns {
			if !usedFn[name] && containsSym(all, name) {
				usedFn[name] = true
				changed = true
				if sf.Body != nil {
					all += " " + w.specFnBody[name]
				}
			}
		}
		for i, ax := range w.Specs.Axioms {
			if usedAx[i] {
				continue
			}
			t := w.axiomSMT[i]
			trig := false
			for _, s := range w.axiomSyms[i] {
				if usedFn[s] {
					trig = true
					break
				}
			}
			if trig {
				usedAxMu.Lock()
				usedAxGlobal[ax] = true
				usedAxMu.Unlock()
				usedAx[i] = true
				all += " " + t
				changed = true
			}
		}
	}
	var lnames []string
	for n := range w.lits {
		lnames = append(lnames, n)
	}
	sortStrings(lnames)
	var litText, litPredText strings.Builder
	for _, n := range lnames {
		if containsSym(all, n) {
			for _, a := range w.lits[n] {
				if strings.HasPrefix(a, "(assert (") && !strings.HasPrefix(a, "(assert (= ") {
					// literal predicate facts go after the spec function declarations
					for name := range w.Specs.SpecFns {
						if strings.HasPrefix(a, "(assert ("+name+" ") && usedFn[name] {
							litPredText.WriteString(a)
							litPredText.WriteByte('\n')
						}
					}
					continue
				}
				litText.WriteString(a)
				litText.WriteByte('\n')
			}
			all += " blen bat"
		}
	}
	if containsSym(all, "tyclass") {
		for id := 1; id <= len(w.TagNames); id++ {
			// every tag is its own class, except array types with identical underlying types
			c := id
			if _, isArr := w.tagTypes()[id].Underlying().(*types.Array); isArr {
				c = w.arrayClass(id)
			}
			fmt.Fprintf(&out, "(assert (= (tyclass %d) %d))\n", id, c)
		}
	}
	if containsSym(all, "tagty") {
		n := len(w.TagNames)
		for id := 1; id <= n; id++ {
			if pt, ok := w.tagTypes()[id].(*types.Pointer); ok {
				if eid, ok := w.TagOf[types.TypeString(pt.Elem(), nil)]; ok {
					fmt.Fprintf(&out, "(assert (= (tagty %d) %d))\n", id, eid)
				}
				fmt.Fprintf(&out, "(assert (ptrtag %d))\n", id)
			}
		}
		fmt.Fprintf(&out, "(assert (forall ((t Int)) (! (=> (> t %d) (> (tagty t) %d)) :pattern ((tagty t)))))\n", n, n)
	}
	if containsSym(all, "strkey") {
		out.WriteString("(declare-fun strkey (BSeq) Int)\n(assert (forall ((a BSeq) (b BSeq)) (! (=> (= (strkey a) (strkey b)) (= a b)) :pattern ((strkey a) (strkey b)))))\n")
		all += " blen"
	}
	for _, g := range groups {
		use := false
		for _, s := range g.symbols {
			if containsSym(all, s) {
				use = true
				break
			}
		}
		if use {
			out.WriteString(g.decls)
			out.WriteString(g.axioms)
		}
	}
	out.WriteString(litText.String())
	// spec fns in declaration order (sorted for determinism)
	for _, name := range w.specFnOrder {
		if !usedFn[name] {
			continue
		}
		out.WriteString(w.specFnDecl[name])
		out.WriteByte('\n')
	}
	out.WriteString(litPredText.String())
	for i := range w.Specs.Axioms {
		if usedAx[i] {
			out.WriteString("(assert ")
			out.WriteString(w.axiomSMT[i])
			out.WriteString(")\n")
		}
	}
	return out.String()
}

func smtSort(s string) string {
	switch s {
	case "Arr":
		return "(Array Int Int)"
	}
	return s
}

// prepareSpecs translates spec functions and axioms to SMT once.
func (w *World) prepareSpecs() error {
	w.specFnDecl = map[string]string{}
	w.specFnBody = map[string]string{}
	var names []string
	for n := range w.Specs.SpecFns {
		names = append(names, n)
	}
	sortStrings(names)
	// uninterpreted first, then defined (which may reference the former)
	var defined []string
	for _, n := range names {
		sf := w.Specs.SpecFns[n]
		if sf.Body == nil {
			var ps []string
			for _, s := range sf.Sorts {
				ps = append(ps, smtSort(s))
			}
			w.specFnDecl[n] = fmt.Sprintf("(declare-fun %s (%s) %s)", n, strings.Join(ps, " "), smtSort(sf.Ret))
			w.specFnOrder = append(w.specFnOrder, n)
		} else {
			defined = append(defined, n)
		}
	}
	// defined functions: order by dependency (simple iterative)
	done := map[string]bool{}
	for len(defined) > 0 {
		progress := false
		var rest []string
		for _, n := range defined {
			sf := w.Specs.SpecFns[n]
			dummy := &FnRun{W: w, inputs: map[string]string{}, Assump: map[string]bool{}}
			st := &State{vals: map[ssa.Value]Val{}, heap: map[string]string{}, ghost: map[string]Val{}}
			env := &Env{r: dummy, st: st, vars: map[string]Val{}}
			var ps []string
			for i, p := range sf.Params {
				k, ok := sortKind(sf.Sorts[i])
				if !ok {
					return fmt.Errorf("%s: spec fn %s: bad sort %s", sf.File, n, sf.Sorts[i])
				}
				env.vars[p] = Val{K: k, S: p}
				ps = append(ps, fmt.Sprintf("(%s %s)", p, smtSort(sf.Sorts[i])))
			}
			v := env.eval(sf.Body)
			if env.err != nil {
				return fmt.Errorf("%s: spec fn %s: %v", sf.File, n, env.err)
			}
			// dependencies on not-yet-emitted defined functions?
			dep := false
			for _, m := range defined {
				if m != n && !done[m] && containsSym(v.S, m) {
					dep = true
				}
			}
			if dep {
				rest = append(rest, n)
				continue
			}
			body := v.S
			if v.K == KSlice {
				return fmt.Errorf("%s: spec fn %s returns a slice", sf.File, n)
			}
			if len(dummy.decls) > 0 {
				return fmt.Errorf("%s: spec fn %s: body needs auxiliary declarations", sf.File, n)
			}
			w.specFnDecl[n] = fmt.Sprintf("(define-fun %s (%s) %s %s)", n, strings.Join(ps, " "), smtSort(sf.Ret), body)
			w.specFnBody[n] = body
			w.specFnOrder = append(w.specFnOrder, n)
			done[n] = true
			progress = true
		}
		if !progress {
			return fmt.Errorf("cyclic spec fn definitions: %v", rest)
		}
		defined = rest
	}
	for _, ax := range w.Specs.Axioms {
		dummy := &FnRun{W: w, inputs: map[string]string{}, Assump: map[string]bool{}}
		st := &State{vals: map[ssa.Value]Val{}, heap: map[string]string{}, ghost: map[string]Val{}}
		env := &Env{r: dummy, st: st, vars: map[string]Val{}}
		var qs []string
		for _, vd := range ax.Vars {
			f := strings.Fields(vd)
			if len(f) != 2 {
				return fmt.Errorf("%s: axiom %s: bad variable %q", ax.File, ax.Name, vd)
			}
			k, ok := sortKind(f[1])
			if !ok {
				return fmt.Errorf("%s: axiom %s: bad sort %q", ax.File, ax.Name, f[1])
			}
			env.vars[f[0]] = Val{K: k, S: f[0]}
			qs = append(qs, fmt.Sprintf("(%s %s)", f[0], smtSort(f[1])))
		}
		v := env.eval(ax.Expr)
		if env.err != nil {
			return fmt.Errorf("%s: axiom %s: %v", ax.File, ax.Name, env.err)
		}
		if len(dummy.decls) > 0 {
			return fmt.Errorf("%s: axiom %s needs auxiliary declarations", ax.File, ax.Name)
		}
		t := v.S
		if len(qs) > 0 {
			t = fmt.Sprintf("(forall (%s) %s)", strings.Join(qs, " "), v.S)
		}
		w.axiomSMT = append(w.axiomSMT, t)
		var syms []string
		for n := range w.Specs.SpecFns {
			if containsSym(t, n) {
				syms = append(syms, n)
			}
		}
		w.axiomSyms = append(w.axiomSyms, syms)
	}
	return nil
}

var _ = types.Typ

func liteAxiom(l string) bool {
	// length facts: the pattern is a constructor and the body an (in)equality on blen
	for _, p := range []string{
		":pattern ((blen s))", ":pattern ((bcat a b))", ":pattern ((seqOf a o n))", ":pattern ((bzeros n))",
	} {
		if strings.Contains(l, p) && strings.Contains(l, "blen") {
			return true
		}
	}
	if strings.Contains(l, "(= (blen (bsub s i j)) (- j i))") {
		return true
	}
	return false
}

// negateGoal returns declarations and assertions equivalent to (not goal),
// with universally quantified goals skolemised by hand and hypotheses of
// implications asserted separately (the solvers do this poorly when the
// quantifier is nested under other connectives).
func negateGoal(g string, depth int) (decls, asserts []string) {
	if strings.HasPrefix(g, "(forall (") && depth < 8 {
		parts := splitSexp(g[8 : len(g)-1])
		if len(parts) == 2 {
			body := parts[1]
			if strings.HasPrefix(body, "(! ") {
				inner := body[3 : len(body)-1]
				if k := strings.Index(inner, " :pattern "); k > 0 {
					inner = inner[:k]
				}
				if k := strings.Index(inner, " :weight "); k > 0 {
					inner = inner[:k]
				}
				body = inner
			}
			for _, vd := range splitSexp(parts[0][1 : len(parts[0])-1]) {
				vf := splitSexp(vd[1 : len(vd)-1])
				if len(vf) != 2 {
					return nil, []string{sNot(g)}
				}
				sk := fmt.Sprintf("sk!%d!%s", depth, sanitize(vf[0]))
				decls = append(decls, fmt.Sprintf("(declare-const %s %s)", sk, vf[1]))
				body = replaceToken(body, vf[0], sk)
			}
			d2, a2 := negateGoal(body, depth+1)
			return append(decls, d2...), a2
		}
	}
	if strings.HasPrefix(g, "(=> ") {
		parts := splitSexp(g[4 : len(g)-1])
		if len(parts) == 2 {
			d2, a2 := negateGoal(parts[1], depth+1)
			return d2, append([]string{parts[0]}, a2...)
		}
	}
	return nil, []string{sNot(g)}
}

func replaceToken(text, tok, repl string) string {
	var b strings.Builder
	i := 0
	for i < len(text) {
		j := strings.Index(text[i:], tok)
		if j < 0 {
			b.WriteString(text[i:])
			break
		}
		j += i
		before := j == 0 || strings.ContainsRune("( )", rune(text[j-1]))
		after := j+len(tok) >= len(text) || strings.ContainsRune("( )", rune(text[j+len(tok)]))
		b.WriteString(text[i:j])
		if before && after {
			b.WriteString(repl)
		} else {
			b.WriteString(tok)
		}
		i = j + len(tok)
	}
	return b.String()
}

func isHeapSym(t string) bool {
	if len(t) < 3 || t[0] != 'H' {
		return false
	}
	switch t[1] {
	case 'I', 'B', 'R', 'S', 'A':
		return strings.Contains(t, "!")
	}
	return false
}

// coneOfInfluence keeps the hypotheses connected to the goal: an assertion is
// kept if it mentions a relevant non-heap symbol, or if it defines / frames a
// relevant heap version.  Dropping hypotheses is sound for proving.
func coneOfInfluence(pc []string, goal []string) []string {
	type info struct {
		syms  []string
		heaps []string
		def   string // heap defined by this assertion ("" if none)
		vdef  string // value symbol defined by this assertion: (= sym!N term)
	}
	infos := make([]info, len(pc))
	for i, a := range pc {
		seen := map[string]bool{}
		for tok := range tokenSet(a) {
			if !strings.Contains(tok, "!") || strings.HasPrefix(tok, "lit!") || strings.HasPrefix(tok, "q!") || strings.HasPrefix(tok, "sk!") {
				continue
			}
			if seen[tok] {
				continue
			}
			seen[tok] = true
			if isHeapSym(tok) {
				infos[i].heaps = append(infos[i].heaps, tok)
			} else {
				infos[i].syms = append(infos[i].syms, tok)
			}
		}
		if strings.HasPrefix(a, "(= H") {
			if j := strings.IndexByte(a[3:], ' '); j > 0 && isHeapSym(a[3:3+j]) {
				infos[i].def = a[3 : 3+j]
			}
		} else if strings.HasPrefix(a, "(= ") && len(a) > 4 && a[3] != '(' {
			if j := strings.IndexByte(a[3:], ' '); j > 0 && strings.Contains(a[3:3+j], "!") {
				infos[i].vdef = a[3 : 3+j]
			}
		} else if strings.HasPrefix(a, "(forall ((r Ref))") || strings.HasPrefix(a, "(forall ((b Ref)") {
			// frame axiom of a havoc: defines the newest heap it mentions
			best := ""
			bestN := -1
			for _, h := range infos[i].heaps {
				if k := strings.LastIndex(h, "!"); k > 0 {
					n := 0
					fmt.Sscanf(h[k+1:], "%d", &n)
					if n > bestN {
						bestN, best = n, h
					}
				}
			}
			infos[i].def = best
		}
	}
	rel := map[string]bool{}
	for _, g := range goal {
		for tok := range tokenSet(g) {
			if strings.Contains(tok, "!") {
				rel[tok] = true
			}
		}
	}
	keep := make([]bool, len(pc))
	changed := true
	for changed {
		changed = false
		for i := range pc {
			if keep[i] {
				continue
			}
			inc := false
			if infos[i].def != "" && rel[infos[i].def] {
				inc = true
			}
			if !inc && infos[i].vdef != "" {
				// a definition is needed only if the defined symbol is
				inc = rel[infos[i].vdef]
			} else if !inc {
				for _, s := range infos[i].syms {
					if rel[s] {
						inc = true
						break
					}
				}
			}
			if !inc && len(infos[i].syms) == 0 && len(infos[i].heaps) == 0 {
				inc = true // ground facts
			}
			if inc {
				keep[i] = true
				changed = true
				for _, s := range infos[i].syms {
					rel[s] = true
				}
				for _, h := range infos[i].heaps {
					rel[h] = true
				}
			}
		}
	}
	var out []string
	for i, a := range pc {
		if keep[i] {
			out = append(out, a)
		}
	}
	return out
}

// axioms that entered at least one query of this run (reported as assumptions in the evidence)
var (
	usedAxGlobal = map[*Axiom]bool{}
	usedAxMu     sync.Mutex
)
