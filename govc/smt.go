package main

// SMT-LIB text helpers and the fixed prelude (sorts, memory model, byte
// sequence axioms).  Terms are plain strings.

import (
	"fmt"
	"math/big"
	"strings"
)

func sx(op string, args ...string) string {
	if len(args) == 0 {
		return op
	}
	return "(" + op + " " + strings.Join(args, " ") + ")"
}

func sAnd(args ...string) string {
	var a []string
	for _, x := range args {
		if x == "true" || x == "" {
			continue
		}
		if x == "false" {
			return "false"
		}
		a = append(a, x)
	}
	switch len(a) {
	case 0:
		return "true"
	case 1:
		return a[0]
	}
	return sx("and", a...)
}

func sOr(args ...string) string {
	var a []string
	for _, x := range args {
		if x == "false" || x == "" {
			continue
		}
		if x == "true" {
			return "true"
		}
		a = append(a, x)
	}
	switch len(a) {
	case 0:
		return "false"
	case 1:
		return a[0]
	}
	return sx("or", a...)
}

func sNot(a string) string {
	switch a {
	case "true":
		return "false"
	case "false":
		return "true"
	}
	if strings.HasPrefix(a, "(not ") && balanced(a[5:len(a)-1]) {
		return a[5 : len(a)-1]
	}
	return sx("not", a)
}

func balanced(s string) bool {
	d := 0
	for i := 0; i < len(s); i++ {
		switch s[i] {
		case '(':
			d++
		case ')':
			d--
			if d < 0 {
				return false
			}
			if d == 0 && i != len(s)-1 {
				return false
			}
		case ' ':
			if d == 0 {
				return false
			}
		}
	}
	return d == 0
}

func sImp(a, b string) string {
	if a == "true" {
		return b
	}
	if a == "false" || b == "true" {
		return "true"
	}
	return sx("=>", a, b)
}
func sEq(a, b string) string {
	if a == b {
		return "true"
	}
	return sx("=", a, b)
}
func sIte(c, a, b string) string {
	if c == "true" {
		return a
	}
	if c == "false" {
		return b
	}
	if a == b {
		return a
	}
	return sx("ite", c, a, b)
}

func sInt(n int64) string {
	if n < 0 {
		return fmt.Sprintf("(- %d)", -n)
	}
	return fmt.Sprintf("%d", n)
}

func sBig(n *big.Int) string {
	if n.Sign() < 0 {
		return "(- " + new(big.Int).Neg(n).String() + ")"
	}
	return n.String()
}

func pow2(n uint) *big.Int { return new(big.Int).Lsh(big.NewInt(1), n) }

// isIntLit reports whether t is an integer literal term and returns it.
func isIntLit(t string) (*big.Int, bool) {
	s := t
	neg := false
	if strings.HasPrefix(s, "(- ") && strings.HasSuffix(s, ")") {
		s = s[3 : len(s)-1]
		neg = true
	}
	if s == "" {
		return nil, false
	}
	for _, c := range s {
		if c < '0' || c > '9' {
			return nil, false
		}
	}
	n, ok := new(big.Int).SetString(s, 10)
	if !ok {
		return nil, false
	}
	if neg {
		n.Neg(n)
	}
	return n, true
}

func sAdd(a, b string) string {
	if x, ok := isIntLit(a); ok {
		if y, ok := isIntLit(b); ok {
			return sBig(new(big.Int).Add(x, y))
		}
		if x.Sign() == 0 {
			return b
		}
	}
	if y, ok := isIntLit(b); ok && y.Sign() == 0 {
		return a
	}
	return sx("+", a, b)
}
func sSub(a, b string) string {
	if x, ok := isIntLit(a); ok {
		if y, ok := isIntLit(b); ok {
			return sBig(new(big.Int).Sub(x, y))
		}
	}
	if y, ok := isIntLit(b); ok && y.Sign() == 0 {
		return a
	}
	return sx("-", a, b)
}
func sMul(a, b string) string {
	if x, ok := isIntLit(a); ok {
		if y, ok := isIntLit(b); ok {
			return sBig(new(big.Int).Mul(x, y))
		}
	}
	return sx("*", a, b)
}

const prelude = `
(declare-datatypes ((Ref 0)) (((null) (obj (oid Int)) (fld (fbase Ref) (fidx Int)) (elt (ebase Ref) (eidx Int)) (ibox (ival Int)))))
(declare-sort BSeq 0)
(declare-fun tyof (Ref) Int)
(declare-fun alen (Ref) Int)
(declare-fun tagty (Int) Int)
(declare-fun ptrtag (Int) Bool)
(declare-fun elty (Ref) Int)
(declare-fun tyclass (Int) Int)
(define-fun parent ((r Ref)) Ref (ite ((_ is fld) r) (fbase r) (ite ((_ is elt) r) (ebase r) null)))
(define-fun within ((r Ref) (x Ref)) Bool (and (not (= x null)) (or (= (parent r) x) (= (parent (parent r)) x) (= (parent (parent (parent r))) x))))
(define-fun withineq ((r Ref) (x Ref)) Bool (and (not (= x null)) (or (= r x) (= (parent r) x) (= (parent (parent r)) x) (= (parent (parent (parent r))) x))))
(define-fun rootref ((r Ref)) Ref (ite ((_ is obj) r) r (ite ((_ is obj) (parent r)) (parent r) (ite ((_ is obj) (parent (parent r))) (parent (parent r)) (ite ((_ is obj) (parent (parent (parent r)))) (parent (parent (parent r))) (parent (parent (parent (parent r)))))))))
(define-fun rootid ((r Ref)) Int (ite ((_ is obj) (rootref r)) (oid (rootref r)) (- 1)))
(define-fun imin ((a Int) (b Int)) Int (ite (<= a b) a b))
(define-fun imax ((a Int) (b Int)) Int (ite (<= a b) b a))
(define-fun godiv ((a Int) (b Int)) Int (ite (>= a 0) (ite (> b 0) (div a b) (- (div a (- b)))) (ite (> b 0) (- (div (- a) b)) (div (- a) (- b)))))
(define-fun gomod ((a Int) (b Int)) Int (- a (* b (godiv a b))))
`

// axiom groups: each has trigger symbols; included only when one of the
// symbols occurs in the query text (symbol-reachability pruning).
type axiomGroup struct {
	name    string
	decls   string
	axioms  string
	symbols []string // any of these occurring => include
	needs   []string // other groups required
}

var bseqGroup = axiomGroup{
	name: "bseq",
	decls: `
(declare-fun blen (BSeq) Int)
(declare-fun bat (BSeq Int) Int)
(declare-fun bempty () BSeq)
(declare-fun bcat (BSeq BSeq) BSeq)
(declare-fun bsub (BSeq Int Int) BSeq)
(declare-fun seqOf ((Array Int Int) Int Int) BSeq)
(declare-fun splice ((Array Int Int) Int Int BSeq) (Array Int Int))
(declare-fun bzeros (Int) BSeq)
(declare-fun be16 (Int) BSeq)
(declare-fun be32 (Int) BSeq)
(declare-fun be64 (Int) BSeq)
(declare-fun unbe (BSeq) Int)
(declare-fun bbyte (Int) BSeq)
`,
	axioms: `
(assert (forall ((s BSeq)) (! (>= (blen s) 0) :pattern ((blen s)))))
(assert (= (blen bempty) 0))
(assert (forall ((s BSeq)) (! (=> (= (blen s) 0) (= s bempty)) :pattern ((blen s)))))
(assert (forall ((a BSeq) (b BSeq)) (! (= (blen (bcat a b)) (+ (blen a) (blen b))) :pattern ((bcat a b)))))
(assert (forall ((a BSeq)) (! (= (bcat a bempty) a) :pattern ((bcat a bempty)))))
(assert (forall ((a BSeq)) (! (= (bcat bempty a) a) :pattern ((bcat bempty a)))))
(assert (forall ((a BSeq) (b BSeq) (c BSeq)) (! (= (bcat (bcat a b) c) (bcat a (bcat b c))) :pattern ((bcat (bcat a b) c)))))
(assert (forall ((s BSeq) (i Int) (j Int)) (! (=> (and (<= 0 i) (<= i j) (<= j (blen s))) (= (blen (bsub s i j)) (- j i))) :pattern ((bsub s i j)))))
(assert (forall ((s BSeq) (i Int) (j Int)) (! (=> (and (= i 0) (= j (blen s))) (= (bsub s i j) s)) :pattern ((bsub s i j)))))
(assert (forall ((s BSeq) (i Int) (j Int)) (! (=> (= i j) (= (bsub s i j) bempty)) :pattern ((bsub s i j)))))
(assert (forall ((s BSeq) (i Int) (j Int) (k Int) (l Int)) (! (=> (and (<= 0 i) (<= i j) (<= j (blen s)) (<= 0 k) (<= k l) (<= l (- j i))) (= (bsub (bsub s i j) k l) (bsub s (+ i k) (+ i l)))) :weight 5 :pattern ((bsub (bsub s i j) k l)))))
(assert (forall ((a BSeq) (b BSeq) (i Int) (j Int)) (! (=> (and (<= 0 i) (<= i j) (<= j (blen a))) (= (bsub (bcat a b) i j) (bsub a i j))) :pattern ((bsub (bcat a b) i j)))))
(assert (forall ((a BSeq) (b BSeq) (i Int) (j Int)) (! (=> (and (<= (blen a) i) (<= i j) (<= j (+ (blen a) (blen b)))) (= (bsub (bcat a b) i j) (bsub b (- i (blen a)) (- j (blen a))))) :pattern ((bsub (bcat a b) i j)))))
(assert (forall ((s BSeq) (i Int) (j Int) (j2 Int) (k Int)) (! (=> (and (= j j2) (<= 0 i) (<= i j) (<= j k) (<= k (blen s))) (= (bcat (bsub s i j) (bsub s j2 k)) (bsub s i k))) :pattern ((bcat (bsub s i j) (bsub s j2 k))))))
(assert (forall ((a BSeq) (b BSeq) (i Int)) (! (= (bat (bcat a b) i) (ite (< i (blen a)) (bat a i) (bat b (- i (blen a))))) :pattern ((bat (bcat a b) i)))))
(assert (forall ((s BSeq) (i Int) (j Int) (k Int)) (! (=> (and (<= 0 i) (<= 0 k) (< (+ i k) j) (<= j (blen s))) (= (bat (bsub s i j) k) (bat s (+ i k)))) :pattern ((bat (bsub s i j) k)))))
(assert (forall ((s BSeq) (i Int)) (! (=> (and (<= 0 i) (< i (blen s))) (and (<= 0 (bat s i)) (<= (bat s i) 255))) :pattern ((bat s i)))))
(assert (forall ((a (Array Int Int)) (o Int) (n Int)) (! (=> (>= n 0) (= (blen (seqOf a o n)) n)) :pattern ((seqOf a o n)))))
(assert (forall ((a (Array Int Int)) (o Int) (n Int) (i Int)) (! (=> (and (<= 0 i) (< i n)) (= (bat (seqOf a o n) i) (select a (+ o i)))) :pattern ((bat (seqOf a o n) i)))))
(assert (forall ((a (Array Int Int)) (o Int) (n Int) (i Int) (j Int)) (! (=> (and (<= 0 i) (<= i j) (<= j n)) (= (bsub (seqOf a o n) i j) (seqOf a (+ o i) (- j i)))) :weight 3 :pattern ((bsub (seqOf a o n) i j)))))
(assert (forall ((a (Array Int Int)) (o Int) (n Int) (p Int) (m Int)) (! (=> (and (= p (+ o n)) (>= n 0) (>= m 0)) (= (bcat (seqOf a o n) (seqOf a p m)) (seqOf a o (+ n m)))) :pattern ((bcat (seqOf a o n) (seqOf a p m))))))
(assert (forall ((a (Array Int Int)) (i Int) (v Int) (o Int) (n Int)) (! (=> (or (< i o) (>= i (+ o n))) (= (seqOf (store a i v) o n) (seqOf a o n))) :pattern ((seqOf (store a i v) o n)))))
(assert (forall ((a (Array Int Int)) (o Int) (n Int) (s BSeq) (i Int)) (! (= (select (splice a o n s) i) (ite (and (<= o i) (< i (+ o n))) (bat s (- i o)) (select a i))) :pattern ((select (splice a o n s) i)))))
(assert (forall ((a (Array Int Int)) (o Int) (n Int) (s BSeq) (p Int) (m Int)) (! (=> (and (= (blen s) n) (<= o p) (<= 0 m) (<= (+ p m) (+ o n))) (= (seqOf (splice a o n s) p m) (bsub s (- p o) (- (+ p m) o)))) :pattern ((seqOf (splice a o n s) p m)))))
(assert (forall ((a (Array Int Int)) (o Int) (n Int) (s BSeq) (p Int) (m Int)) (! (=> (or (<= (+ p m) o) (>= p (+ o n))) (= (seqOf (splice a o n s) p m) (seqOf a p m))) :pattern ((seqOf (splice a o n s) p m)))))
(assert (forall ((n Int)) (! (=> (>= n 0) (= (blen (bzeros n)) n)) :pattern ((bzeros n)))))
(assert (forall ((o Int) (n Int)) (! (=> (>= n 0) (= (seqOf ((as const (Array Int Int)) 0) o n) (bzeros n))) :pattern ((seqOf ((as const (Array Int Int)) 0) o n)))))
(assert (forall ((a (Array Int Int)) (o Int)) (! (= (seqOf a o 1) (bbyte (select a o))) :pattern ((seqOf a o 1)))))
(assert (forall ((n Int) (i Int)) (! (=> (and (<= 0 i) (< i n)) (= (bat (bzeros n) i) 0)) :pattern ((bat (bzeros n) i)))))
(assert (forall ((v Int)) (! (= (blen (be16 v)) 2) :pattern ((be16 v)))))
(assert (forall ((v Int)) (! (= (blen (be32 v)) 4) :pattern ((be32 v)))))
(assert (forall ((v Int)) (! (= (blen (be64 v)) 8) :pattern ((be64 v)))))
(assert (forall ((v Int)) (! (=> (and (<= 0 v) (< v 65536)) (= (unbe (be16 v)) v)) :pattern ((be16 v)))))
(assert (forall ((v Int)) (! (=> (and (<= 0 v) (< v 4294967296)) (= (unbe (be32 v)) v)) :pattern ((be32 v)))))
(assert (forall ((v Int)) (! (=> (and (<= 0 v) (< v 18446744073709551616)) (= (unbe (be64 v)) v)) :pattern ((be64 v)))))
(assert (forall ((v Int)) (! (=> (and (<= 0 v) (< v 65536)) (and (= (bat (be16 v) 0) (div v 256)) (= (bat (be16 v) 1) (mod v 256)))) :pattern ((be16 v)))))
(assert (forall ((s BSeq)) (! (and (<= 0 (unbe s)) (=> (= (blen s) 1) (and (< (unbe s) 256) (= (unbe s) (bat s 0)))) (=> (= (blen s) 2) (and (< (unbe s) 65536) (= (unbe s) (+ (* 256 (bat s 0)) (bat s 1))))) (=> (= (blen s) 4) (< (unbe s) 4294967296)) (=> (= (blen s) 8) (< (unbe s) 18446744073709551616))) :pattern ((unbe s)))))
(assert (forall ((s BSeq)) (! (=> (= (blen s) 2) (= (be16 (unbe s)) s)) :pattern ((be16 (unbe s))))))
(assert (forall ((s BSeq)) (! (=> (= (blen s) 4) (= (be32 (unbe s)) s)) :pattern ((be32 (unbe s))))))
(assert (forall ((v Int)) (! (and (= (blen (bbyte v)) 1) (=> (and (<= 0 v) (< v 256)) (= (bat (bbyte v) 0) v))) :pattern ((bbyte v)))))
`,
	symbols: []string{"blen", "bat", "bempty", "bcat", "bsub", "seqOf", "splice", "bzeros", "be16", "be32", "be64", "unbe", "bbyte"},
}

// bit operations (uninterpreted per width with the axioms needed)
var bitGroup = axiomGroup{
	name: "bits",
	decls: `
(declare-fun bxor (Int Int) Int)
(declare-fun band (Int Int) Int)
(declare-fun bor (Int Int) Int)
`,
	axioms: `
(assert (forall ((a Int) (b Int)) (! (= (bxor a b) (bxor b a)) :pattern ((bxor a b)))))
(assert (forall ((a Int) (b Int)) (! (=> (and (<= 0 a) (<= 0 b)) (<= 0 (bxor a b))) :pattern ((bxor a b)))))
(assert (forall ((a Int) (b Int)) (! (=> (and (<= 0 a) (< a 256) (<= 0 b) (< b 256)) (< (bxor a b) 256)) :pattern ((bxor a b)))))
(assert (forall ((a Int) (b Int)) (! (=> (and (<= 0 a) (< a 65536) (<= 0 b) (< b 65536)) (< (bxor a b) 65536)) :pattern ((bxor a b)))))
(assert (forall ((a Int) (b Int)) (! (=> (and (<= 0 a) (< a 4294967296) (<= 0 b) (< b 4294967296)) (< (bxor a b) 4294967296)) :pattern ((bxor a b)))))
(assert (forall ((a Int) (b Int)) (! (=> (and (<= 0 a) (< a 18446744073709551616) (<= 0 b) (< b 18446744073709551616)) (< (bxor a b) 18446744073709551616)) :pattern ((bxor a b)))))
(assert (forall ((a Int) (b Int)) (! (= (bxor (bxor a b) b) a) :pattern ((bxor (bxor a b) b)))))
(assert (forall ((a Int)) (! (= (bxor a 0) a) :pattern ((bxor a 0)))))
(assert (forall ((a Int) (b Int)) (! (= (= (bxor a b) 0) (= a b)) :pattern ((bxor a b)))))
(assert (forall ((a Int) (b Int)) (! (= (band a b) (band b a)) :pattern ((band a b)))))
(assert (forall ((a Int) (b Int)) (! (=> (and (<= 0 a) (<= 0 b)) (and (<= 0 (band a b)) (<= (band a b) a) (<= (band a b) b))) :pattern ((band a b)))))
(assert (forall ((a Int) (b Int)) (! (=> (<= 0 b) (and (<= 0 (band a b)) (<= (band a b) b))) :pattern ((band a b)))))
(assert (forall ((a Int) (b Int)) (! (= (bor a b) (bor b a)) :pattern ((bor a b)))))
(assert (forall ((a Int) (b Int)) (! (=> (and (<= 0 a) (<= 0 b)) (and (<= a (bor a b)) (<= b (bor a b)) (<= (bor a b) (+ a b)))) :pattern ((bor a b)))))
(assert (forall ((a Int) (b Int)) (! (=> (and (<= 0 a) (<= 0 b)) (= (= (bor a b) 0) (and (= a 0) (= b 0)))) :pattern ((bor a b)))))
(assert (forall ((a Int)) (! (= (bor a 0) a) :pattern ((bor a 0)))))
`,
	symbols: []string{"bxor", "band", "bor"},
}

var floatGroup = axiomGroup{
	name: "float",
	decls: `
(declare-fun f64add (Int Int) Int)
(declare-fun f64sub (Int Int) Int)
(declare-fun f64mul (Int Int) Int)
(declare-fun f64div (Int Int) Int)
(declare-fun f64neg (Int) Int)
(declare-fun f64lt (Int Int) Bool)
(declare-fun f64le (Int Int) Bool)
(declare-fun f64eq (Int Int) Bool)
(declare-fun f64ofint (Int) Int)
(declare-fun f64toint (Int) Int)
(declare-fun f64const (Int) Int)
`,
	symbols: []string{"f64add", "f64sub", "f64mul", "f64div", "f64neg", "f64lt", "f64le", "f64eq", "f64ofint", "f64toint", "f64const"},
}
