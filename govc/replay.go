package main

// Replay of solver models against the real code: an in-package Go test is
// injected with `go test -overlay` (nothing is written into /repo).

import (
	"bytes"
	"encoding/json"
	"fmt"
	"go/types"
	"os"
	"os/exec"
	"path/filepath"
	"strings"
	"text/template"
	"time"

	"golang.org/x/tools/go/ssa"
)

func smtToGo(v string) string {
	v = strings.TrimSpace(v)
	if n, ok := isIntLit(v); ok {
		return n.String()
	}
	switch v {
	case "true", "false":
		return v
	}
	return ""
}

func findFuncByShort(w *World, short string) *ssa.Function {
	for f := range w.ContractOf {
		if shortFuncName(f) == short {
			return f
		}
	}
	return nil
}

// genericAdapter: free functions / methods whose parameters are all integers
// or booleans can be called directly with the model values.
func genericAdapter(fn *ssa.Function, c *Contract, model map[string]string) (string, bool) {
	if fn.Signature.Recv() != nil {
		return "", false
	}
	var args []string
	for i, p := range fn.Params {
		switch kindOf(p.Type()) {
		case KInt, KBool:
			v := smtToGo(model[c.Params[i]])
			if v == "" {
				if kindOf(p.Type()) == KBool {
					v = "false"
				} else {
					v = "0"
				}
			}
			if kindOf(p.Type()) == KInt && !isFloat(p.Type()) {
				v = fmt.Sprintf("%s(%s)", types.TypeString(p.Type(), func(*types.Package) string { return "" }), v)
			}
			args = append(args, v)
		default:
			return "", false
		}
	}
	return fmt.Sprintf(`package %s

import (
	"fmt"
	"testing"
)

func TestGovcReplay(t *testing.T) {
	defer func() {
		if r := recover(); r != nil {
			fmt.Printf("REPLAY-CONFIRMED: panic: %%v\n", r)
		}
	}()
	%s(%s)
}
`, fn.Pkg.Pkg.Name(), fn.Name(), strings.Join(args, ", ")), true
}

func replayFor(w *World, prop string, a *aggOblig, model map[string]string) map[string]any {
	fn := findFuncByShort(w, a.Func)
	if fn == nil || fn.Pkg == nil {
		return nil
	}
	c := w.ContractOf[fn]
	res := map[string]any{"confirmed": false}
	var src string
	tmplPath := filepath.Join(verifDir, "replay", "adapters", sanitize(a.Func)+".go.tmpl")
	if data, err := os.ReadFile(tmplPath); err == nil {
		// optional first line: //govc:obligations <substring>[,<substring>...]
		if first := strings.SplitN(string(data), "\n", 2)[0]; strings.HasPrefix(first, "//govc:obligations ") {
			okOb := false
			for _, sub := range strings.Split(strings.TrimSpace(strings.TrimPrefix(first, "//govc:obligations ")), ",") {
				if strings.Contains(a.Name, strings.TrimSpace(sub)) {
					okOb = true
				}
			}
			if !okOb {
				res["error"] = "replay adapter does not cover this obligation"
				return res
			}
		}
		tm, err := template.New("a").Funcs(template.FuncMap{
			"int": func(k string, def int64) string {
				if v := smtToGo(model[k]); v != "" && v != "true" && v != "false" {
					return v
				}
				return fmt.Sprint(def)
			},
			"bool": func(k string) string {
				if v := smtToGo(model[k]); v == "true" || v == "false" {
					return v
				}
				return "false"
			},
			"has": func(k string) bool { _, ok := model[k]; return ok },
		}).Parse(string(data))
		if err != nil {
			res["error"] = "adapter template: " + err.Error()
			return res
		}
		var buf bytes.Buffer
		if err := tm.Execute(&buf, map[string]any{"Model": model, "Obligation": a.Name, "Kind": a.Kind}); err != nil {
			res["error"] = "adapter template: " + err.Error()
			return res
		}
		src = buf.String()
		res["adapter"] = tmplPath
	} else if g, ok := genericAdapter(fn, c, model); ok {
		src = g
		res["adapter"] = "generic (integer/boolean parameters)"
	} else {
		res["error"] = "no replay adapter for " + a.Func
		return res
	}
	rel := strings.TrimPrefix(strings.TrimPrefix(fn.Pkg.Pkg.Path(), modPath), "/")
	scratch, err := os.MkdirTemp("/root", "govc-replay-")
	if err != nil {
		scratch, err = os.MkdirTemp("", "govc-replay-")
		if err != nil {
			res["error"] = err.Error()
			return res
		}
	}
	defer os.RemoveAll(scratch)
	tf := filepath.Join(scratch, "zz_govc_replay_test.go")
	os.WriteFile(tf, []byte(src), 0o644)
	ov := map[string]any{"Replace": map[string]string{filepath.Join(w.RepoDir, rel, "zz_govc_replay_test.go"): tf}}
	ovData, _ := json.Marshal(ov)
	ovFile := filepath.Join(scratch, "ov.json")
	os.WriteFile(ovFile, ovData, 0o644)
	cmdline := fmt.Sprintf("ulimit -v 8000000; cd %s && go test -overlay %s -v -vet=off -count=1 -timeout 60s -run '^TestGovcReplay$' ./%s/", w.RepoDir, ovFile, rel)
	cmd := exec.Command("bash", "-c", cmdline)
	cmd.Env = append(os.Environ(), "GOFLAGS=-mod=mod", "GOPROXY=off", "GOSUMDB=off", "GOTOOLCHAIN=local")
	t0 := time.Now()
	out, _ := cmd.CombinedOutput()
	res["cmd"] = cmdline
	res["seconds"] = time.Since(t0).Seconds()
	res["output"] = trunc(string(out), 3000)
	res["test_source"] = src
	if strings.Contains(string(out), "REPLAY-CONFIRMED") {
		res["confirmed"] = true
	}
	return res
}
