package main

func replayFor(w *World, prop string, a *aggOblig, model map[string]string) map[string]any {
	return nil
}
