package main

import (
	"fmt"
	"go/token"
	"go/types"
	"math/big"
	"strconv"
	"strings"
	"sync"

	"golang.org/x/tools/go/ssa"
)

type pathEnd struct{}

// execBlock runs block b (entered from prev) and continues along all paths.
func (r *FnRun) execBlock(st *State, b, prev *ssa.BasicBlock) {
	if len(r.errs) > 0 {
		return
	}
	fn := b.Parent()
	loops := r.loopsOf(fn)
	st.trace = append(st.trace, b.Index)
	// phis
	idx := -1
	if prev != nil {
		for i, p := range b.Preds {
			if p == prev {
				idx = i
				break
			}
		}
	}
	assignPhis := func() {
		var phis []*ssa.Phi
		var nv []Val
		for _, in := range b.Instrs {
			ph, ok := in.(*ssa.Phi)
			if !ok {
				break
			}
			phis = append(phis, ph)
			nv = append(nv, r.val(st, ph.Edges[idx]))
		}
		for i, ph := range phis {
			st.vals[ph] = nv[i]
		}
	}
	if li := loops[b]; li != nil && li.unroll == 0 {
		if cut := st.cuts[b]; cut != nil && prev != nil && li.blocks[prev] {
			// back edge: check invariants and variant, end path
			assignPhis()
			r.checkInvariants(st, li, "inv.keep", b)
			r.checkDecreases(st, li, cut, b)
			r.endPath()
			return
		}
		// loop entry
		if idx >= 0 {
			assignPhis()
		}
		r.checkInvariants(st, li, "inv.init", b)
		r.havocLoop(st, li, b)
		cut := &loopCut{spec: li.spec, ord: li.ord}
		r.assumeInvariants(st, li, b, cut)
		st.cuts[b] = cut
	} else {
		if li != nil && li.unroll > 0 {
			st.visits[b]++
			if st.visits[b] > li.unroll+1 {
				r.errorf("%s: loop %d exceeded unroll bound %d", r.shortFn(), li.ord, li.unroll)
				return
			}
		}
		if idx >= 0 {
			assignPhis()
		}
	}
	for _, in := range b.Instrs {
		if _, ok := in.(*ssa.Phi); ok {
			continue
		}
		if !r.execInstr(st, in, b) {
			return
		}
		if len(r.errs) > 0 {
			return
		}
	}
}

func (r *FnRun) endPath() {
	r.paths++
	if r.paths > r.maxPaths {
		r.errorf("%s: more than %d paths", r.shortFn(), r.maxPaths)
	}
}

func (r *FnRun) loopsOf(fn *ssa.Function) map[*ssa.BasicBlock]*loopInfo {
	// loops of the function under verification carry specs; inlined callees
	// must be loop-free, so only r.Fn matters.
	if fn == r.Fn {
		return r.loops
	}
	return nil
}

// execInstr returns false when the path has been fully handled (branch,
// return, panic).
func (r *FnRun) execInstr(st *State, in ssa.Instruction, b *ssa.BasicBlock) bool {
	switch x := in.(type) {
	case *ssa.DebugRef:
		return true
	case *ssa.Alloc:
		p := r.allocObj(st, x.Comment)
		et := derefType(x.Type())
		r.store(st, p, zeroVal(et))
		r.initGhost(st, p, et, 0)
		r.assumeTy(st, p, x.Type())
		st.vals[x] = refVal(p, x.Type())
	case *ssa.FieldAddr:
		base := r.val(st, x.X)
		fa := sx("fld", base.S, fmt.Sprint(x.Field))
		r.assumeTy(st, fa, x.Type())
		st.vals[x] = refVal(fa, x.Type())
	case *ssa.Field:
		base := r.val(st, x.X)
		if base.K == KStruct && x.Field < len(base.Fs) {
			st.vals[x] = base.Fs[x.Field]
		} else {
			st.vals[x] = r.freshVal(st, x.Type(), x.Name())
		}
	case *ssa.IndexAddr:
		r.execIndexAddr(st, x)
	case *ssa.Index:
		r.execIndex(st, x)
	case *ssa.UnOp:
		r.execUnOp(st, x)
	case *ssa.BinOp:
		st.vals[x] = r.binop(st, x, x.Op, r.val(st, x.X), r.val(st, x.Y), x.Type())
	case *ssa.Store:
		p := r.val(st, x.Addr)
		v := r.val(st, x.Val)
		r.checkFrameStore(st, x, p.S, v)
		r.store(st, p.S, r.coerce(v, derefType(x.Addr.Type())))
	case *ssa.Slice:
		r.execSlice(st, x)
	case *ssa.Convert:
		r.execConvert(st, x)
	case *ssa.ChangeType:
		v := r.val(st, x.X)
		v.T = x.Type()
		st.vals[x] = v
	case *ssa.ChangeInterface:
		v := r.val(st, x.X)
		v.T = x.Type()
		st.vals[x] = v
	case *ssa.MakeInterface:
		st.vals[x] = r.makeIface(st, r.val(st, x.X), x.X.Type(), x.Type())
	case *ssa.TypeAssert:
		r.execTypeAssert(st, x)
	case *ssa.Extract:
		t := r.val(st, x.Tuple)
		if t.K == KTuple && x.Index < len(t.Fs) {
			st.vals[x] = t.Fs[x.Index]
		} else {
			st.vals[x] = r.freshVal(st, x.Type(), x.Name())
		}
	case *ssa.MakeSlice:
		l := r.val(st, x.Len)
		c := r.val(st, x.Cap)
		r.check(st, "safe.make", "", x, sAnd(sx("<=", "0", l.S), sx("<=", l.S, c.S)), "make: 0 <= len <= cap")
		p := r.allocObj(st, "mk")
		st.assume(sEq(sx("alen", p), c.S))
		et := x.Type().Underlying().(*types.Slice).Elem()
		st.assume(sEq(sx("elty", p), fmt.Sprint(r.W.eltyFor(et))))
		if kindOf(et) == KInt {
			r.setHeap(st, "A", sx("store", st.heap["A"], p, "((as const (Array Int Int)) 0)"))
		}
		st.vals[x] = Val{K: KSlice, T: x.Type(), Bas: p, Off: "0", Len: l.S, Cap: c.S}
	case *ssa.MakeMap:
		p := r.allocObj(st, "map")
		r.mapInit(st, p)
		r.initGhost(st, p, x.Type(), 0)
		st.vals[x] = refVal(p, x.Type())
	case *ssa.MakeChan:
		p := r.allocObj(st, "chan")
		// a new channel is open
		r.setHeap(st, "B", sx("store", st.heap["B"], sx("fld", p, "904"), "false"))
		st.vals[x] = refVal(p, x.Type())
	case *ssa.MakeClosure:
		p := r.allocObj(st, "clo")
		st.vals[x] = refVal(p, x.Type())
		r.closures()[p] = x
		for _, bd := range x.Bindings {
			r.val(st, bd)
		}
	case *ssa.Phi:
		// handled at block entry
	case *ssa.Call:
		r.assertAt(st, x, &x.Call)
		res := r.execCall(st, x, &x.Call, x.Type())
		if st.panicked {
			return false
		}
		st.vals[x] = res
	case *ssa.Defer:
		d := deferred{call: &x.Call, instr: x}
		for _, a := range x.Call.Args {
			d.args = append(d.args, r.val(st, a))
		}
		if !x.Call.IsInvoke() {
			if _, ok := x.Call.Value.(*ssa.Builtin); !ok {
				d.fn = r.val(st, x.Call.Value)
			}
		} else {
			d.fn = r.val(st, x.Call.Value)
		}
		st.defers = append(st.defers, d)
	case *ssa.RunDefers:
		r.runDefers(st, x)
		if st.panicked {
			return false
		}
	case *ssa.Go:
		r.Assump["goroutine started by `go` in "+r.shortFn()+" is not followed"] = true
		for _, a := range x.Call.Args {
			r.val(st, a)
		}
	case *ssa.Send:
		r.execSend(st, x)
	case *ssa.Select:
		if x.Blocking {
			r.assertAtName(st, x, "select", nil)
		}
		r.execSelect(st, x)
	case *ssa.MapUpdate:
		r.execMapUpdate(st, x)
	case *ssa.Lookup:
		r.execLookup(st, x)
	case *ssa.Range:
		st.vals[x] = refVal("null", x.Type())
		r.rangeOf()[x] = r.val(st, x.X)
	case *ssa.Next:
		r.execNext(st, x)
	case *ssa.If:
		c := r.val(st, x.Cond)
		tb, fb := b.Succs[0], b.Succs[1]
		if c.S == "true" {
			r.execBlock(st, tb, b)
			return false
		}
		if c.S == "false" {
			r.execBlock(st, fb, b)
			return false
		}
		st2 := st.clone()
		st.assume(c.S)
		r.execBlock(st, tb, b)
		st2.assume(sNot(c.S))
		r.execBlock(st2, fb, b)
		return false
	case *ssa.Jump:
		r.execBlock(st, b.Succs[0], b)
		return false
	case *ssa.Return:
		var res []Val
		for i, v := range x.Results {
			rv := r.val(st, v)
			var rt types.Type
			if sig := b.Parent().Signature; i < sig.Results().Len() {
				rt = sig.Results().At(i).Type()
			}
			res = append(res, r.coerce(rv, rt))
		}
		if st.inl != nil {
			fr := st.inl
			st.inl = fr.parent
			fr.retCont(st, res)
			return false
		}
		r.atReturn(st, res, x)
		r.endPath()
		return false
	case *ssa.Panic:
		if st.inl != nil {
			// panic inside an inlined callee: obligation in the caller
			r.oblig(st, "safe.panic", "", x, "false", "explicit panic in inlined "+shortFuncName(b.Parent())+" unreachable", r.C.Serves)
			r.endPath()
			st.panicked = true
			return false
		}
		r.atPanic(st, x)
		r.endPath()
		return false
	default:
		r.errorf("%s: unsupported instruction %T: %s", r.shortFn(), in, in.String())
		return false
	}
	return true
}

func (r *FnRun) coerce(v Val, t types.Type) Val {
	if t == nil {
		return v
	}
	k := kindOf(t)
	if v.K == k {
		v.T = t
		return v
	}
	// nil constants of the wrong shape
	if v.K == KRef && v.S == "null" {
		return zeroVal(t)
	}
	return v
}

var closureStore = map[*FnRun]map[string]*ssa.MakeClosure{}

func (r *FnRun) closures() map[string]*ssa.MakeClosure {
	m := closureStore[r]
	if m == nil {
		m = map[string]*ssa.MakeClosure{}
		closureStore[r] = m
	}
	return m
}

var rangeStore = map[*FnRun]map[*ssa.Range]Val{}

func (r *FnRun) rangeOf() map[*ssa.Range]Val {
	m := rangeStore[r]
	if m == nil {
		m = map[*ssa.Range]Val{}
		rangeStore[r] = m
	}
	return m
}

func (r *FnRun) makeIface(st *State, v Val, from types.Type, to types.Type) Val {
	tag := r.W.tagFor(from)
	out := Val{K: KIface, T: to, Tag: fmt.Sprint(tag)}
	switch v.K {
	case KRef:
		out.Pay = v.S
		if v.S != "null" && !strings.HasPrefix(v.S, "(obj ") {
			// modelling assumption check: pointers stored in interfaces point to whole objects
			if _, isPtr := from.Underlying().(*types.Pointer); isPtr && r.C != nil {
				r.check(st, "model", "iface_whole_object", nil, sOr(sEq(v.S, "null"), sx("(_ is obj)", v.S)), "pointer converted to an interface points to a whole object (modelling assumption of interface payloads)")
			}
		}
	case KInt:
		out.Pay = sx("ibox", v.S)
	default:
		// box other values into a fresh object holding the value
		p := r.allocObj(st, "box")
		r.store(st, p, v)
		out.Pay = p
	}
	return out
}

func (r *FnRun) execTypeAssert(st *State, x *ssa.TypeAssert) {
	v := r.val(st, x.X)
	var match string
	var res Val
	if types.IsInterface(x.AssertedType) {
		// interface-to-interface: succeeds iff dynamic type implements it
		var tags []string
		for i, name := range r.W.TagNames {
			_ = name
			t := r.tagType(i + 1)
			if t != nil && types.Implements(t, x.AssertedType.Underlying().(*types.Interface)) {
				tags = append(tags, sEq(v.Tag, fmt.Sprint(i+1)))
			}
		}
		// unknown dynamic types (tag beyond the table) may or may not implement it
		unk := r.fresh("implements", "Bool")
		match = sAnd(sNot(sEq(v.Tag, "0")), sOr(append(tags, sAnd(sx(">", v.Tag, fmt.Sprint(len(r.W.TagNames))), unk))...))
		res = Val{K: KIface, T: x.AssertedType, Tag: v.Tag, Pay: v.Pay}
	} else {
		tag := r.W.tagFor(x.AssertedType)
		match = sEq(v.Tag, fmt.Sprint(tag))
		switch kindOf(x.AssertedType) {
		case KRef:
			res = refVal(v.Pay, x.AssertedType)
		case KInt:
			res = intVal(sx("ival", v.Pay), x.AssertedType)
		default:
			res = r.load(st, v.Pay, x.AssertedType, x.Name())
		}
	}
	if x.CommaOk {
		okv := r.fresh(x.Name()+".ok", "Bool")
		st.assume(sEq(okv, match))
		z := zeroVal(x.AssertedType)
		// result value is zero when !ok
		rv := res
		if res.K == KRef {
			rv = refVal(sIte(okv, res.S, "null"), x.AssertedType)
		} else if res.K == KInt {
			rv = intVal(sIte(okv, res.S, "0"), x.AssertedType)
		} else if res.K == KIface {
			rv = Val{K: KIface, T: x.AssertedType, Tag: sIte(okv, res.Tag, "0"), Pay: sIte(okv, res.Pay, "null")}
		}
		_ = z
		st.vals[x] = Val{K: KTuple, T: x.Type(), Fs: []Val{rv, boolVal(okv)}}
		return
	}
	r.check(st, "safe.assert", "", x, match, "type assertion succeeds")
	st.vals[x] = res
}

func (r *FnRun) tagType(tag int) types.Type {
	// reverse lookup through the world's type table is not kept; dynamic
	// types are recorded at tagFor time
	if tag-1 < len(r.W.TagNames) {
		return r.W.tagTypes()[tag]
	}
	return nil
}

func (r *FnRun) execIndexAddr(st *State, x *ssa.IndexAddr) {
	base := r.val(st, x.X)
	i := r.val(st, x.Index)
	switch base.K {
	case KSlice:
		r.check(st, "safe.index", "", x, sAnd(sx("<=", "0", i.S), sx("<", i.S, base.Len)), "index in range of slice")
		st.vals[x] = refVal(sx("elt", base.Bas, sAdd(base.Off, i.S)), x.Type())
	case KRef:
		at := derefType(x.X.Type()).Underlying().(*types.Array)
		r.check(st, "safe.index", "", x, sAnd(sx("<=", "0", i.S), sx("<", i.S, fmt.Sprint(at.Len()))), "index in range of array")
		st.vals[x] = refVal(sx("elt", base.S, i.S), x.Type())
	default:
		r.errorf("%s: IndexAddr on %v", r.shortFn(), base.K)
	}
}

func (r *FnRun) execIndex(st *State, x *ssa.Index) {
	base := r.val(st, x.X)
	i := r.val(st, x.Index)
	switch base.K {
	case KSeq:
		r.check(st, "safe.index", "", x, sAnd(sx("<=", "0", i.S), sx("<", i.S, sx("blen", base.S))), "index in range of string")
		v := r.fresh(x.Name(), "Int")
		st.assume(sEq(v, sx("bat", base.S, i.S)))
		st.assume(rangeAssume(v, x.Type()))
		st.vals[x] = intVal(v, x.Type())
	case KArr:
		at := x.X.Type().Underlying().(*types.Array)
		r.check(st, "safe.index", "", x, sAnd(sx("<=", "0", i.S), sx("<", i.S, fmt.Sprint(at.Len()))), "index in range of array")
		v := r.fresh(x.Name(), "Int")
		st.assume(sEq(v, sx("select", base.S, i.S)))
		st.assume(rangeAssume(v, x.Type()))
		st.vals[x] = intVal(v, x.Type())
	default:
		st.vals[x] = r.freshVal(st, x.Type(), x.Name())
	}
}

func (r *FnRun) execUnOp(st *State, x *ssa.UnOp) {
	v := r.val(st, x.X)
	switch x.Op {
	case token.MUL: // load
		if g, ok := x.X.(*ssa.Global); ok {
			if id, ok := r.W.Sentinels[g]; ok {
				tagT := types.Type(types.NewPointer(types.Typ[types.Invalid]))
				if dt := r.W.SentinelType[g]; dt != nil {
					tagT = dt
				}
				st.vals[x] = Val{K: KIface, T: x.Type(), Tag: fmt.Sprint(r.W.tagFor(tagT)), Pay: sx("obj", sInt(int64(-1000000-id)))}
				r.Assump["package-level error sentinels initialised by errors.New are distinct, non-nil and never reassigned (checked: one store, in init)"] = true
				return
			}
			if cv, ok := r.constGlobal(st, g, x.Type()); ok {
				st.vals[x] = cv
				return
			}
		}
		lv := r.load(st, v.S, x.Type(), x.Name())
		st.vals[x] = lv
		// s[i] on a byte slice: state the instance of the seqOf/bat axiom that links the
		// element to the slice's contents as a sequence (contracts speak about seq(s))
		if ia, ok := x.X.(*ssa.IndexAddr); ok && lv.K == KInt {
			if bv, ok := st.vals[ia.X]; ok && bv.K == KSlice && isByteSlice(ia.X.Type()) {
				iv := r.val(st, ia.Index)
				st.assume(sEq(lv.S, sx("bat", r.seqOfSlice(st, bv), iv.S)))
			}
		}
		if fa, ok := x.X.(*ssa.FieldAddr); ok && len(r.W.Specs.FieldInvs) > 0 {
			if st0, ok := derefType(fa.X.Type()).Underlying().(*types.Struct); ok {
				key := typeKey(derefType(fa.X.Type())) + "." + st0.Field(fa.Field).Name()
				if fi := r.W.Specs.FieldInvs[key]; fi != nil {
					env := &Env{r: r, st: st, vars: map[string]Val{"v": lv}}
					g := env.eval(fi.Expr)
					if env.err != nil {
						r.errorf("%s: fieldinv %s: %v", fi.File, key, env.err)
					} else {
						st.assume(g.S)
						r.Assump["field invariant assumed on load: "+fi.Src] = true
					}
				}
			}
		}
	case token.NOT:
		st.vals[x] = boolVal(sNot(v.S))
	case token.SUB:
		if isFloat(x.Type()) {
			st.vals[x] = intVal(sx("f64neg", v.S), x.Type())
			return
		}
		res := sSub("0", v.S)
		if isUnsigned(x.Type()) {
			_, hi, _ := intRange(x.Type())
			res = sx("mod", res, sBig(new(big.Int).Add(hi, big.NewInt(1))))
		} else {
			r.check(st, "safe.overflow", "", x, rangeAssume(res, x.Type()), "negation does not overflow")
		}
		st.vals[x] = intVal(res, x.Type())
	case token.XOR:
		// bitwise complement
		if lo, hi, ok := intRange(x.Type()); ok && lo.Sign() == 0 {
			st.vals[x] = intVal(sSub(sBig(hi), v.S), x.Type())
		} else {
			st.vals[x] = intVal(sSub(sSub("0", v.S), "1"), x.Type())
		}
	case token.ARROW:
		r.execRecv(st, x, v)
	default:
		r.errorf("%s: unsupported unop %s", r.shortFn(), x.Op)
	}
}

func cmpOp(op token.Token) string {
	switch op {
	case token.LSS:
		return "<"
	case token.LEQ:
		return "<="
	case token.GTR:
		return ">"
	case token.GEQ:
		return ">="
	}
	return ""
}

func (r *FnRun) binop(st *State, site ssa.Instruction, op token.Token, a, b Val, t types.Type) Val {
	switch op {
	case token.EQL, token.NEQ:
		a2, b2 := a, b
		if a.K != b.K {
			if a.K == KRef && a.S == "null" {
				a2 = zeroVal(b.T)
			} else if b.K == KRef && b.S == "null" {
				b2 = zeroVal(a.T)
			}
		}
		var e string
		if a2.K == KInt && a2.T != nil && isFloat(a2.T) {
			e = sx("f64eq", a2.S, b2.S)
		} else if a2.K == KSlice && (b2.Bas == "null" || a2.Bas == "null") {
			// comparison with nil: a slice is nil iff its base is null
			if b2.Bas == "null" {
				e = sEq(a2.Bas, "null")
			} else {
				e = sEq(b2.Bas, "null")
			}
		} else if a2.K == KIface && b2.K == KIface && (b2.Tag == "0" || a2.Tag == "0") {
			if b2.Tag == "0" {
				e = sEq(a2.Tag, "0")
			} else {
				e = sEq(b2.Tag, "0")
			}
		} else {
			e = valEq(a2, b2)
		}
		if x, ok := isIntLit(a2.S); ok && a2.K == KInt {
			if y, ok := isIntLit(b2.S); ok {
				if x.Cmp(y) == 0 {
					e = "true"
				} else {
					e = "false"
				}
			}
		}
		if op == token.NEQ {
			e = sNot(e)
		}
		return boolVal(e)
	case token.LSS, token.LEQ, token.GTR, token.GEQ:
		if a.K == KSeq {
			return boolVal(r.fresh("strcmp", "Bool"))
		}
		if a.T != nil && isFloat(a.T) {
			switch op {
			case token.LSS:
				return boolVal(sx("f64lt", a.S, b.S))
			case token.LEQ:
				return boolVal(sx("f64le", a.S, b.S))
			case token.GTR:
				return boolVal(sx("f64lt", b.S, a.S))
			default:
				return boolVal(sx("f64le", b.S, a.S))
			}
		}
		if x, ok := isIntLit(a.S); ok {
			if y, ok := isIntLit(b.S); ok {
				c := x.Cmp(y)
				res := false
				switch op {
				case token.LSS:
					res = c < 0
				case token.LEQ:
					res = c <= 0
				case token.GTR:
					res = c > 0
				case token.GEQ:
					res = c >= 0
				}
				if res {
					return boolVal("true")
				}
				return boolVal("false")
			}
		}
		return boolVal(sx(cmpOp(op), a.S, b.S))
	case token.LAND:
		return boolVal(sAnd(a.S, b.S))
	case token.LOR:
		return boolVal(sOr(a.S, b.S))
	}
	if a.K == KSeq && op == token.ADD {
		return Val{K: KSeq, T: t, S: sx("bcat", a.S, b.S)}
	}
	if a.K == KBool {
		switch op {
		case token.AND:
			return boolVal(sAnd(a.S, b.S))
		case token.OR:
			return boolVal(sOr(a.S, b.S))
		case token.XOR:
			return boolVal(sNot(sEq(a.S, b.S)))
		}
	}
	if isFloat(t) {
		f := map[token.Token]string{token.ADD: "f64add", token.SUB: "f64sub", token.MUL: "f64mul", token.QUO: "f64div"}[op]
		if f == "" {
			r.errorf("%s: float op %s", r.shortFn(), op)
			return intVal("0", t)
		}
		return intVal(sx(f, a.S, b.S), t)
	}
	lo, hi, ranged := intRange(t)
	var mod string
	if ranged {
		mod = sBig(new(big.Int).Add(new(big.Int).Sub(hi, lo), big.NewInt(1)))
	}
	wrap := func(raw string, what string) Val {
		if !ranged {
			return intVal(raw, t)
		}
		if lo.Sign() == 0 {
			// unsigned: wraps
			if n, ok := isIntLit(raw); ok {
				return intVal(sBig(new(big.Int).Mod(n, new(big.Int).Add(hi, big.NewInt(1)))), t)
			}
			v := r.fresh("u", "Int")
			st.assume(sEq(v, sx("mod", raw, mod)))
			return intVal(v, t)
		}
		if site != nil {
			r.check(st, "safe.overflow", "", site, rangeAssume(raw, t), what+" does not overflow "+t.String())
		}
		return intVal(raw, t)
	}
	switch op {
	case token.ADD:
		return wrap(sAdd(a.S, b.S), "addition")
	case token.SUB:
		return wrap(sSub(a.S, b.S), "subtraction")
	case token.MUL:
		return wrap(sMul(a.S, b.S), "multiplication")
	case token.QUO:
		if site != nil {
			r.check(st, "safe.div", "", site, sNot(sEq(b.S, "0")), "divisor is not zero")
		}
		if lo != nil && lo.Sign() == 0 {
			return intVal(sx("div", a.S, b.S), t)
		}
		return intVal(sx("godiv", a.S, b.S), t)
	case token.REM:
		if site != nil {
			r.check(st, "safe.div", "", site, sNot(sEq(b.S, "0")), "divisor is not zero")
		}
		if lo != nil && lo.Sign() == 0 {
			return intVal(sx("mod", a.S, b.S), t)
		}
		if n, ok := isIntLit(b.S); ok && n.Sign() > 0 {
			// a % c with c>0: Go truncated remainder
			v := r.fresh("rem", "Int")
			st.assume(sEq(v, sx("ite", sx(">=", a.S, "0"), sx("mod", a.S, b.S), sx("-", sx("mod", sx("-", a.S), b.S)))))
			return intVal(v, t)
		}
		return intVal(sx("gomod", a.S, b.S), t)
	case token.SHL:
		if n, ok := isIntLit(b.S); ok && n.IsInt64() && n.Int64() < 64 {
			return wrapShl(r, st, a, uint(n.Int64()), t, lo, hi, ranged)
		}
		v := r.fresh("shl", "Int")
		st.assume(rangeAssume(v, t))
		return intVal(v, t)
	case token.SHR:
		if n, ok := isIntLit(b.S); ok && n.IsInt64() && n.Int64() < 64 {
			d := sBig(pow2(uint(n.Int64())))
			return intVal(sx("div", a.S, d), t) // floor division == arithmetic shift for both signs
		}
		v := r.fresh("shr", "Int")
		st.assume(rangeAssume(v, t))
		if lo != nil && lo.Sign() == 0 {
			st.assume(sx("<=", v, a.S))
		}
		return intVal(v, t)
	case token.AND:
		if n, ok := isIntLit(b.S); ok && lo != nil && lo.Sign() == 0 {
			if m := new(big.Int).Add(n, big.NewInt(1)); m.BitLen() > 0 && new(big.Int).And(m, n).Sign() == 0 {
				return intVal(sx("mod", a.S, sBig(m)), t) // x & (2^k-1)
			}
		}
		if n, ok := isIntLit(a.S); ok && lo != nil && lo.Sign() == 0 {
			if m := new(big.Int).Add(n, big.NewInt(1)); new(big.Int).And(m, n).Sign() == 0 {
				return intVal(sx("mod", b.S, sBig(m)), t)
			}
		}
		v := r.fresh("and", "Int")
		st.assume(sEq(v, sx("band", a.S, b.S)))
		st.assume(rangeAssume(v, t))
		return intVal(v, t)
	case token.OR:
		v := r.fresh("or", "Int")
		st.assume(sEq(v, sx("bor", a.S, b.S)))
		st.assume(rangeAssume(v, t))
		// x<<k | y with 0 <= y < 2^k is x<<k + y (disjoint bits)
		if k, ok := r.shlBits()[a.S]; ok {
			st.assume(sImp(sAnd(sx("<=", "0", b.S), sx("<", b.S, sBig(pow2(k))), sx("<=", "0", a.S)), sEq(v, sx("+", a.S, b.S))))
		} else if k, ok := r.shlBits()[b.S]; ok {
			st.assume(sImp(sAnd(sx("<=", "0", a.S), sx("<", a.S, sBig(pow2(k))), sx("<=", "0", b.S)), sEq(v, sx("+", a.S, b.S))))
		}
		return intVal(v, t)
	case token.XOR:
		v := r.fresh("xor", "Int")
		st.assume(sEq(v, sx("bxor", a.S, b.S)))
		st.assume(rangeAssume(v, t))
		return intVal(v, t)
	case token.AND_NOT:
		v := r.fresh("andnot", "Int")
		st.assume(rangeAssume(v, t))
		if lo != nil && lo.Sign() == 0 {
			st.assume(sx("<=", v, a.S))
		}
		return intVal(v, t)
	}
	r.errorf("%s: unsupported binop %s", r.shortFn(), op)
	return intVal("0", t)
}

func wrapShl(r *FnRun, st *State, a Val, n uint, t types.Type, lo, hi *big.Int, ranged bool) Val {
	raw := sMul(a.S, sBig(pow2(n)))
	if !ranged {
		return intVal(raw, t)
	}
	m := new(big.Int).Add(new(big.Int).Sub(hi, lo), big.NewInt(1))
	if lo.Sign() == 0 {
		v := r.fresh("shl", "Int")
		st.assume(sEq(v, sx("mod", raw, sBig(m))))
		r.shlBits()[v] = n
		return intVal(v, t)
	}
	// signed shift: wraps silently in Go; model exactly
	v := r.fresh("shl", "Int")
	st.assume(sEq(v, sx("-", sx("mod", sx("+", raw, sBig(new(big.Int).Neg(lo))), sBig(m)), sBig(new(big.Int).Neg(lo)))))
	r.shlBits()[v] = n
	return intVal(v, t)
}

func (r *FnRun) execSlice(st *State, x *ssa.Slice) {
	base := r.val(st, x.X)
	var lo, hi, max string
	if x.Low != nil {
		lo = r.val(st, x.Low).S
	} else {
		lo = "0"
	}
	switch base.K {
	case KSeq:
		n := sx("blen", base.S)
		if x.High != nil {
			hi = r.val(st, x.High).S
		} else {
			hi = n
		}
		r.check(st, "safe.slice", "", x, sAnd(sx("<=", "0", lo), sx("<=", lo, hi), sx("<=", hi, n)), "string slice bounds in range")
		st.vals[x] = Val{K: KSeq, T: x.Type(), S: sx("bsub", base.S, lo, hi)}
		return
	case KRef:
		// pointer to array
		if g, isG := x.X.(*ssa.Global); isG && r.W.zeroGlobals[g] {
			st.assume(sEq(sx("select", st.heap["A"], base.S), "((as const (Array Int Int)) 0)"))
		}
		at := derefType(x.X.Type()).Underlying().(*types.Array)
		n := fmt.Sprint(at.Len())
		if x.High != nil {
			hi = r.val(st, x.High).S
		} else {
			hi = n
		}
		max = n
		if x.Max != nil {
			max = r.val(st, x.Max).S
		}
		r.check(st, "safe.slice", "", x, sAnd(sx("<=", "0", lo), sx("<=", lo, hi), sx("<=", hi, max), sx("<=", max, n)), "array slice bounds in range")
		st.vals[x] = Val{K: KSlice, T: x.Type(), Bas: base.S, Off: lo, Len: sSub(hi, lo), Cap: sSub(max, lo)}
		return
	case KSlice:
		if x.High != nil {
			hi = r.val(st, x.High).S
		} else {
			hi = base.Len
		}
		max = base.Cap
		if x.Max != nil {
			max = r.val(st, x.Max).S
		}
		// read discipline: an explicit high bound must not exceed len unless
		// the contract marks the function reslice_to_cap
		limit := base.Len
		desc := "slice bounds within len (read discipline)"
		if r.C != nil && r.C.Opts["reslice_to_cap"] != "" || x.Max != nil {
			limit = base.Cap
			desc = "slice bounds within cap"
		}
		if st.inl != nil {
			if c := r.W.ContractOf[st.inl.fn]; c != nil && c.Opts["reslice_to_cap"] != "" {
				limit = base.Cap
			}
		}
		g := sAnd(sx("<=", "0", lo), sx("<=", lo, hi), sx("<=", hi, limit))
		if x.Max != nil {
			g = sAnd(g, sx("<=", hi, max), sx("<=", max, base.Cap))
		}
		r.check(st, "safe.slice", "", x, g, desc)
		st.vals[x] = Val{K: KSlice, T: x.Type(), Bas: base.Bas, Off: sAdd(base.Off, lo), Len: sSub(hi, lo), Cap: sSub(max, lo)}
		return
	}
	r.errorf("%s: Slice on %v", r.shortFn(), base.K)
}

func (r *FnRun) execConvert(st *State, x *ssa.Convert) {
	v := r.val(st, x.X)
	from, to := x.X.Type(), x.Type()
	fk, tk := kindOf(from), kindOf(to)
	switch {
	case fk == KInt && tk == KInt:
		if isFloat(from) && isFloat(to) {
			st.vals[x] = intVal(v.S, to)
			return
		}
		if isFloat(to) {
			st.vals[x] = intVal(sx("f64ofint", v.S), to)
			return
		}
		if isFloat(from) {
			nv := r.fresh(x.Name(), "Int")
			st.assume(sEq(nv, sx("f64toint", v.S)))
			st.assume(rangeAssume(nv, to))
			st.vals[x] = intVal(nv, to)
			return
		}
		lo, hi, ok := intRange(to)
		if !ok {
			st.vals[x] = intVal(v.S, to)
			return
		}
		flo, fhi, fok := intRange(from)
		if fok && flo.Cmp(lo) >= 0 && fhi.Cmp(hi) <= 0 {
			st.vals[x] = intVal(v.S, to) // widening
			return
		}
		lossless := sAnd(sx("<=", sBig(lo), v.S), sx("<=", v.S, sBig(hi)))
		if n, ok := isIntLit(v.S); ok {
			if n.Cmp(lo) >= 0 && n.Cmp(hi) <= 0 {
				st.vals[x] = intVal(v.S, to)
				return
			}
		}
		// narrowing / sign-changing conversion
		if r.C != nil && r.C.Opts["wrapping_conversions"] == "" {
			r.check(st, "safe.conv", "", x, lossless, fmt.Sprintf("conversion %s -> %s is lossless", from, to))
			st.vals[x] = intVal(v.S, to)
			return
		}
		m := sBig(new(big.Int).Add(new(big.Int).Sub(hi, lo), big.NewInt(1)))
		nv := r.fresh(x.Name(), "Int")
		if lo.Sign() == 0 {
			st.assume(sEq(nv, sx("mod", v.S, m)))
		} else {
			st.assume(sEq(nv, sx("-", sx("mod", sx("-", v.S, sBig(lo)), m), sBig(new(big.Int).Neg(lo)))))
		}
		st.vals[x] = intVal(nv, to)
	case fk == KSlice && tk == KSeq:
		// string(bytes)
		st.vals[x] = Val{K: KSeq, T: to, S: r.seqOfSlice(st, v)}
	case fk == KSeq && tk == KSlice:
		p := r.allocObj(st, "bytes")
		arr := r.fresh("arr", "(Array Int Int)")
		n := sx("blen", v.S)
		st.assume(sEq(sx("seqOf", arr, "0", n), v.S))
		r.setHeap(st, "A", sx("store", st.heap["A"], p, arr))
		st.assume(sEq(sx("alen", p), n))
		st.assume(sEq(sx("elty", p), fmt.Sprint(r.W.eltyFor(types.Typ[types.Byte]))))
		st.vals[x] = Val{K: KSlice, T: to, Bas: p, Off: "0", Len: n, Cap: n}
	case fk == KSeq && tk == KSeq:
		st.vals[x] = v
	case fk == KInt && tk == KSeq:
		st.vals[x] = Val{K: KSeq, T: to, S: r.fresh("runestr", "BSeq")}
	case fk == KRef && tk == KRef:
		v.T = to
		st.vals[x] = v
	default:
		st.vals[x] = r.freshVal(st, to, x.Name())
	}
}

func (r *FnRun) seqOfSlice(st *State, v Val) string {
	return sx("seqOf", sx("select", st.heap["A"], v.Bas), v.Off, v.Len)
}

// seqOfArrayPtr: BSeq of the n bytes of the array p points to.
func (r *FnRun) seqOfArrayPtr(st *State, p string, n int64) string {
	return sx("seqOf", sx("select", st.heap["A"], p), "0", fmt.Sprint(n))
}

var _ = strings.Contains

// initGhost sets the ghost fields of a freshly allocated object (and of the
// struct values nested in it) to their defaults.
func (r *FnRun) initGhost(st *State, p string, t types.Type, depth int) {
	if t == nil || depth > 3 {
		return
	}
	tk := typeKey(t)
	if tk != "" {
		for k, gf := range r.W.Specs.GhostFields {
			if strings.HasPrefix(k, tk+".") && k == tk+"."+gf.Name {
				cell := sx("fld", p, fmt.Sprint(gf.ID))
				switch gf.Sort {
				case "Int":
					r.setHeap(st, "I", sx("store", st.heap["I"], cell, "0"))
				case "Bool":
					r.setHeap(st, "B", sx("store", st.heap["B"], cell, "false"))
				case "Ref":
					r.setHeap(st, "R", sx("store", st.heap["R"], cell, "null"))
				case "BSeq":
					r.setHeap(st, "S", sx("store", st.heap["S"], cell, "bempty"))
				}
			}
		}
	}
	if s, ok := t.Underlying().(*types.Struct); ok && !isTimeTime(t) {
		for i := 0; i < s.NumFields(); i++ {
			if _, isStruct := s.Field(i).Type().Underlying().(*types.Struct); isStruct {
				r.initGhost(st, sx("fld", p, fmt.Sprint(i)), s.Field(i).Type(), depth+1)
			}
		}
	}
}

// assertAt: contract clauses attached to call sites (assert_at CALLEE [label] expr).
func (r *FnRun) assertAt(st *State, site ssa.Instruction, call *ssa.CallCommon) {
	if r.C == nil || len(r.C.AssertAt) == 0 || st.inl != nil {
		return
	}
	name := ""
	if call.IsInvoke() {
		name = "(" + types.TypeString(call.Value.Type(), nil) + ")." + call.Method.Name()
	} else if f := call.StaticCallee(); f != nil {
		name = f.String()
	} else {
		return
	}
	var args []Val
	if call.IsInvoke() {
		args = append(args, r.val(st, call.Value))
	}
	for _, a := range call.Args {
		args = append(args, r.val(st, a))
	}
	r.assertAtName(st, site, name, args)
}

func (r *FnRun) assertAtName(st *State, site ssa.Instruction, name string, args []Val) {
	if r.C == nil || st.inl != nil {
		return
	}
	for _, aa := range r.C.AssertAt {
		pat, want := aa.Callee, 0
		if i := strings.LastIndex(pat, "#"); i > 0 {
			if k, err := strconv.Atoi(pat[i+1:]); err == nil {
				pat, want = pat[:i], k
			}
		}
		if !strings.Contains(name, pat) {
			continue
		}
		if want > 0 && r.matchOrdinal(site, pat) != want {
			continue
		}
		assertAtHitMu.Lock()
		assertAtHit[aa] = true
		assertAtHitMu.Unlock()
		env := &Env{r: r, st: st, old: r.entry, vars: map[string]Val{}, fn: r.Fn, pkg: r.entryEnv.pkg, block: site.Block()}
		for k, v := range r.entryEnv.vars {
			env.vars[k] = v
		}
		for i, a := range args {
			env.vars[fmt.Sprintf("arg%d", i)] = a
		}
		g := env.eval(aa.Clause.Expr)
		if env.err != nil {
			r.unstatable(st, "assert", sanitize(aa.Callee), aa.Clause, env.err)
			continue
		}
		props := r.C.Serves
		if len(aa.Clause.Props) > 0 {
			props = aa.Clause.Props
		}
		lbl := aa.Clause.Name
		if lbl == "" {
			lbl = sanitize(aa.Callee)
		}
		if g.S != "false" {
			// vacuity guard: the asserted call site must be reached by some path that is not refutable
			// (an assertion of `false` claims the opposite and is exempt)
			cv := r.oblig(st, "cover", "assert_site."+lbl, site, "false", "some path reaches the call site of this assertion under the accumulated hypotheses", props)
			cv.Cover = true
			cv.AnyPath = true
		}
		o := r.oblig(st, "assert", lbl, site, g.S, "assertion at "+aa.Callee+": "+aa.Clause.Src, props)
		o.Clause = aa.Clause.Src
		st.assume(g.S)
	}
}

// matchOrdinal: position of site among the call sites of the function whose
// callee name contains pat (SSA block order).
func (r *FnRun) matchOrdinal(site ssa.Instruction, pat string) int {
	n := 0
	for _, b := range r.Fn.Blocks {
		for _, in := range b.Instrs {
			name := ""
			switch x := in.(type) {
			case *ssa.Select:
				name = "select"
			case ssa.CallInstruction:
				call := x.Common()
				if call.IsInvoke() {
					name = "(" + types.TypeString(call.Value.Type(), nil) + ")." + call.Method.Name()
				} else if f := call.StaticCallee(); f != nil {
					name = f.String()
				}
			}
			if name != "" && strings.Contains(name, pat) {
				n++
				if in == site {
					return n
				}
			}
		}
	}
	return 0
}

var shlStore = map[*FnRun]map[string]uint{}

func (r *FnRun) shlBits() map[string]uint {
	m := shlStore[r]
	if m == nil {
		m = map[string]uint{}
		shlStore[r] = m
	}
	return m
}

func isByteSlice(t types.Type) bool {
	sl, ok := t.Underlying().(*types.Slice)
	if !ok {
		return false
	}
	b, ok := sl.Elem().Underlying().(*types.Basic)
	return ok && b.Kind() == types.Uint8
}

var (
	assertAtHit   = map[*AssertAt]bool{}
	assertAtHitMu sync.Mutex
)
