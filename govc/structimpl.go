package main

import "fmt"

func (w *World) structCheck(sc *StructCheck) (structResult, error) {
	return structResult{}, fmt.Errorf("%s:%d: unknown struct check kind %q", sc.File, sc.Line, sc.Kind)
}
