package main

import (
	"fmt"
	"go/types"
	"sort"
	"strings"

	"golang.org/x/tools/go/ssa"
)

// structCheck decides a structural obligation on the SSA / static call graph.
//
//	disjoint_fields T readers=f,g,... writers=h,k,... shared=a,b,...
//
// The functions named under readers (methods of *T or functions of the package, with everything
// they call statically inside the package) and those under writers access disjoint sets of fields of
// T, except the fields listed as shared - and a shared field is never stored to by either group
// (it is set by the constructor only).  This is the footprint half of "two goroutines, one running
// the readers and one the writers, cannot interfere"; objects reachable through shared pointer
// fields need their own synchronisation (an assumption that the check prints).
func (w *World) structCheck(sc *StructCheck) (structResult, error) {
	switch sc.Kind {
	case "disjoint_fields":
		return w.disjointFields(sc)
	}
	return structResult{}, fmt.Errorf("%s:%d: unknown struct check kind %q", sc.File, sc.Line, sc.Kind)
}

func (w *World) disjointFields(sc *StructCheck) (structResult, error) {
	name := sc.Name
	if name == "" {
		name = "disjoint_fields"
	}
	res := structResult{Name: "struct." + name}
	if len(sc.Args) < 3 {
		return res, fmt.Errorf("%s:%d: disjoint_fields T readers=.. writers=.. [shared=..]", sc.File, sc.Line)
	}
	sp := w.SSAPkgs[sc.Pkg]
	if sp == nil {
		return res, fmt.Errorf("%s:%d: package %s not loaded", sc.File, sc.Line, sc.Pkg)
	}
	tn, _ := sp.Pkg.Scope().Lookup(sc.Args[0]).(*types.TypeName)
	if tn == nil {
		return res, fmt.Errorf("%s:%d: no type %s", sc.File, sc.Line, sc.Args[0])
	}
	st, ok := tn.Type().Underlying().(*types.Struct)
	if !ok {
		return res, fmt.Errorf("%s:%d: %s is not a struct", sc.File, sc.Line, sc.Args[0])
	}
	groups := map[string][]string{}
	for _, a := range sc.Args[1:] {
		kv := strings.SplitN(a, "=", 2)
		if len(kv) != 2 {
			return res, fmt.Errorf("%s:%d: bad argument %q", sc.File, sc.Line, a)
		}
		groups[kv[0]] = strings.Split(kv[1], ",")
	}
	find := func(n string) *ssa.Function {
		for f := range w.AllFuncs {
			if f.Pkg == sp && (f.Name() == n) {
				return f
			}
		}
		return nil
	}
	type acc struct{ read, write map[string]bool }
	footprint := func(names []string) (acc, error) {
		a := acc{map[string]bool{}, map[string]bool{}}
		seen := map[*ssa.Function]bool{}
		var visit func(f *ssa.Function)
		visit = func(f *ssa.Function) {
			if f == nil || seen[f] || f.Blocks == nil {
				return
			}
			seen[f] = true
			for _, b := range f.Blocks {
				for _, in := range b.Instrs {
					switch x := in.(type) {
					case *ssa.FieldAddr:
						if types.Identical(derefType(x.X.Type()), tn.Type()) {
							fld := st.Field(x.Field).Name()
							stored := false
							for _, ref := range *x.Referrers() {
								if s, ok := ref.(*ssa.Store); ok && s.Addr == x {
									stored = true
								}
							}
							if stored {
								a.write[fld] = true
							} else {
								a.read[fld] = true
							}
						}
					case ssa.CallInstruction:
						if c := x.Common().StaticCallee(); c != nil && c.Pkg == sp {
							visit(c)
						}
					case *ssa.MakeClosure:
						if c, ok := x.Fn.(*ssa.Function); ok {
							visit(c)
						}
					}
				}
			}
		}
		for _, n := range names {
			f := find(n)
			if f == nil {
				return a, fmt.Errorf("%s:%d: no function %s in %s", sc.File, sc.Line, n, sc.Pkg)
			}
			visit(f)
		}
		return a, nil
	}
	rd, err := footprint(groups["readers"])
	if err != nil {
		res.Detail = err.Error() // a renamed/removed function: the claim can no longer be stated
		return res, nil
	}
	wr, err := footprint(groups["writers"])
	if err != nil {
		res.Detail = err.Error()
		return res, nil
	}
	shared := map[string]bool{}
	for _, s := range groups["shared"] {
		shared[s] = true
	}
	var bad []string
	all := func(a acc) map[string]bool {
		m := map[string]bool{}
		for k := range a.read {
			m[k] = true
		}
		for k := range a.write {
			m[k] = true
		}
		return m
	}
	ra, wa := all(rd), all(wr)
	for f := range ra {
		if wa[f] && !shared[f] {
			bad = append(bad, "field "+f+" is accessed by both groups and is not declared shared")
		}
	}
	for f := range shared {
		if rd.write[f] || wr.write[f] {
			bad = append(bad, "shared field "+f+" is stored to (it must be set by the constructor only)")
		}
	}
	sort.Strings(bad)
	keys := func(m map[string]bool) string {
		var ks []string
		for k := range m {
			ks = append(ks, k)
		}
		sort.Strings(ks)
		return strings.Join(ks, ",")
	}
	res.OK = len(bad) == 0
	res.Detail = fmt.Sprintf("readers{%s} touch {%s}; writers{%s} touch {%s}; shared (read-only after construction; the objects they point to synchronise themselves): {%s}",
		strings.Join(groups["readers"], ","), keys(ra), strings.Join(groups["writers"], ","), keys(wa), keys(shared))
	if !res.OK {
		res.Detail = strings.Join(bad, "; ") + " -- " + res.Detail
	}
	return res, nil
}
