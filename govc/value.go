package main

import (
	"fmt"
	"go/types"
	"math/big"
	"strings"
)

type Kind int

const (
	KInt Kind = iota
	KBool
	KRef
	KSeq
	KSlice
	KIface
	KStruct
	KTuple
	KArr // array of int-like elements, value is (Array Int Int)
	KUnit
	KOpaque
)

func (k Kind) String() string {
	return [...]string{"Int", "Bool", "Ref", "BSeq", "Slice", "Iface", "Struct", "Tuple", "Arr", "Unit", "Opaque"}[k]
}

type Val struct {
	K   Kind
	T   types.Type
	S   string // scalar term
	Bas string // slice base (Ref)
	Off string
	Len string
	Cap string
	Tag string // iface tag (Int)
	Pay string // iface payload (Ref)
	Fs  []Val
}

func intVal(s string, t types.Type) Val { return Val{K: KInt, S: s, T: t} }
func boolVal(s string) Val              { return Val{K: KBool, S: s, T: types.Typ[types.Bool]} }
func refVal(s string, t types.Type) Val { return Val{K: KRef, S: s, T: t} }
func seqVal(s string) Val               { return Val{K: KSeq, S: s, T: types.Typ[types.String]} }
func unitVal() Val                      { return Val{K: KUnit} }
func nilIface(t types.Type) Val         { return Val{K: KIface, T: t, Tag: "0", Pay: "null"} }
func nilSlice(t types.Type) Val {
	return Val{K: KSlice, T: t, Bas: "null", Off: "0", Len: "0", Cap: "0"}
}

func isTimeTime(t types.Type) bool {
	n, ok := t.(*types.Named)
	if !ok {
		return false
	}
	o := n.Obj()
	return o.Pkg() != nil && o.Pkg().Path() == "time" && o.Name() == "Time"
}

func isFloat(t types.Type) bool {
	b, ok := t.Underlying().(*types.Basic)
	return ok && b.Info()&types.IsFloat != 0
}

func kindOf(t types.Type) Kind {
	if t == nil {
		return KUnit
	}
	if isTimeTime(t) {
		return KInt
	}
	switch u := t.Underlying().(type) {
	case *types.Basic:
		switch {
		case u.Kind() == types.UntypedNil:
			return KRef
		case u.Info()&types.IsBoolean != 0:
			return KBool
		case u.Info()&types.IsString != 0:
			return KSeq
		case u.Info()&(types.IsInteger|types.IsFloat) != 0:
			return KInt
		case u.Kind() == types.UnsafePointer:
			return KRef
		case u.Info()&types.IsComplex != 0:
			return KOpaque
		}
		return KOpaque
	case *types.Pointer, *types.Map, *types.Chan, *types.Signature:
		return KRef
	case *types.Slice:
		return KSlice
	case *types.Interface:
		return KIface
	case *types.Struct:
		return KStruct
	case *types.Array:
		if kindOf(u.Elem()) == KInt {
			return KArr
		}
		return KOpaque
	case *types.Tuple:
		if u.Len() == 0 {
			return KUnit
		}
		return KTuple
	}
	return KOpaque
}

// intRange returns the inclusive range of an integer type; ok=false for
// non-integers (floats, time.Time: unbounded).
func intRange(t types.Type) (lo, hi *big.Int, ok bool) {
	if t == nil || isTimeTime(t) {
		return nil, nil, false
	}
	b, isb := t.Underlying().(*types.Basic)
	if !isb || b.Info()&types.IsInteger == 0 {
		return nil, nil, false
	}
	bits := uint(64)
	switch b.Kind() {
	case types.Int8, types.Uint8:
		bits = 8
	case types.Int16, types.Uint16:
		bits = 16
	case types.Int32, types.Uint32:
		bits = 32
	case types.UntypedInt, types.UntypedRune:
		return nil, nil, false
	}
	if b.Info()&types.IsUnsigned != 0 {
		return big.NewInt(0), new(big.Int).Sub(pow2(bits), big.NewInt(1)), true
	}
	return new(big.Int).Neg(pow2(bits - 1)), new(big.Int).Sub(pow2(bits-1), big.NewInt(1)), true
}

func isUnsigned(t types.Type) bool {
	b, ok := t.Underlying().(*types.Basic)
	return ok && b.Info()&types.IsUnsigned != 0
}

func rangeAssume(term string, t types.Type) string {
	lo, hi, ok := intRange(t)
	if !ok {
		return "true"
	}
	return sAnd(sx("<=", sBig(lo), term), sx("<=", term, sBig(hi)))
}

func sortOfKind(k Kind) string {
	switch k {
	case KInt:
		return "Int"
	case KBool:
		return "Bool"
	case KRef, KOpaque:
		return "Ref"
	case KSeq:
		return "BSeq"
	case KArr:
		return "(Array Int Int)"
	}
	panic("no sort for kind " + k.String())
}

func (v Val) String() string {
	switch v.K {
	case KSlice:
		return fmt.Sprintf("slice(%s,%s,%s,%s)", v.Bas, v.Off, v.Len, v.Cap)
	case KIface:
		return fmt.Sprintf("iface(%s,%s)", v.Tag, v.Pay)
	case KStruct, KTuple:
		var p []string
		for _, f := range v.Fs {
			p = append(p, f.String())
		}
		return "{" + strings.Join(p, ", ") + "}"
	case KUnit:
		return "unit"
	}
	return v.S
}

// valEq builds the SMT equality of two values of the same kind.
func valEq(a, b Val) string {
	switch a.K {
	case KSlice:
		// slices are only comparable to nil in Go
		return sAnd(sEq(a.Bas, b.Bas), sEq(a.Off, b.Off), sEq(a.Len, b.Len), sEq(a.Cap, b.Cap))
	case KIface:
		return sAnd(sEq(a.Tag, b.Tag), sEq(a.Pay, b.Pay))
	case KStruct, KTuple:
		var p []string
		for i := range a.Fs {
			p = append(p, valEq(a.Fs[i], b.Fs[i]))
		}
		return sAnd(p...)
	case KUnit:
		return "true"
	}
	return sEq(a.S, b.S)
}

func structFieldIndex(st *types.Struct, name string) int {
	for i := 0; i < st.NumFields(); i++ {
		if st.Field(i).Name() == name {
			return i
		}
	}
	return -1
}

func derefType(t types.Type) types.Type {
	if p, ok := t.Underlying().(*types.Pointer); ok {
		return p.Elem()
	}
	return nil
}
