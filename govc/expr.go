package main

// Evaluation of contract expressions (parsed with go/parser) to SMT terms.

import (
	"fmt"
	"go/ast"
	"go/constant"
	"go/token"
	"go/types"
	"strconv"
	"strings"

	"golang.org/x/tools/go/ssa"
)

const ghostRoot = "(obj (- 1))"

var ghostGlobals = map[string]int{"blocked": 1, "now": 2, "crashed": 3}

type Env struct {
	r     *FnRun
	st    *State
	old   *State
	vars  map[string]Val
	pkg   *types.Package
	fn    *ssa.Function
	block *ssa.BasicBlock // for loop-variable lookup
	err   error
	bound map[string]bool
}

func (e *Env) fail(format string, a ...any) Val {
	if e.err == nil {
		e.err = fmt.Errorf(format, a...)
	}
	return boolVal("false")
}

func (e *Env) withState(st *State) *Env {
	n := *e
	n.st = st
	return &n
}

func sortKind(s string) (Kind, bool) {
	switch s {
	case "Int":
		return KInt, true
	case "Bool":
		return KBool, true
	case "BSeq":
		return KSeq, true
	case "Ref":
		return KRef, true
	case "Arr":
		return KArr, true
	}
	return 0, false
}

func (e *Env) eval(x ast.Expr) Val {
	switch n := x.(type) {
	case *ast.ParenExpr:
		return e.eval(n.X)
	case *ast.BasicLit:
		switch n.Kind {
		case token.INT:
			v := constant.MakeFromLiteral(n.Value, token.INT, 0)
			return intVal(v.ExactString(), nil)
		case token.CHAR:
			v := constant.MakeFromLiteral(n.Value, token.CHAR, 0)
			i, _ := constant.Int64Val(v)
			return intVal(sInt(i), nil)
		case token.STRING:
			s, _ := strconv.Unquote(n.Value)
			return seqVal(e.r.strLit(s))
		}
		return e.fail("unsupported literal %s", n.Value)
	case *ast.Ident:
		return e.evalIdent(n)
	case *ast.UnaryExpr:
		v := e.eval(n.X)
		switch n.Op {
		case token.NOT:
			return boolVal(sNot(v.S))
		case token.SUB:
			return intVal(sSub("0", v.S), v.T)
		case token.AND:
			// &x.f : address
			ref, t, _ := e.evalAddr(n.X)
			return refVal(ref, types.NewPointer(t))
		}
		return e.fail("unsupported unary %s", n.Op)
	case *ast.BinaryExpr:
		return e.evalBinary(n)
	case *ast.CallExpr:
		return e.evalCall(n)
	case *ast.SelectorExpr:
		return e.evalSelector(n)
	case *ast.IndexExpr:
		return e.evalIndex(n)
	case *ast.SliceExpr:
		return e.evalSliceExpr(n)
	case *ast.StarExpr:
		p := e.eval(n.X)
		if p.K != KRef || p.T == nil || derefType(p.T) == nil {
			return e.fail("cannot dereference %s", exprString(n.X))
		}
		return e.r.load(e.st, p.S, derefType(p.T), "deref")
	case *ast.TypeAssertExpr:
		v := e.eval(n.X)
		t := e.resolveType(n.Type)
		if t == nil {
			return e.fail("unknown type in assertion %s", exprString(n.Type))
		}
		if v.K != KIface {
			return e.fail("type assertion on non-interface %s", exprString(n.X))
		}
		switch kindOf(t) {
		case KRef:
			return refVal(v.Pay, t)
		case KInt:
			return intVal(sx("ival", v.Pay), t)
		}
		return e.r.load(e.st, v.Pay, t, "unboxed")
	}
	return e.fail("unsupported expression %T (%s)", x, exprString(x))
}

func exprString(x ast.Expr) string {
	return types.ExprString(x)
}

func (e *Env) resolveType(x ast.Expr) types.Type {
	s := strings.ReplaceAll(types.ExprString(x), " ", "")
	if t := e.r.W.lookupType(s); t != nil {
		return t
	}
	// unqualified: type of the current package
	if e.pkg != nil {
		ptr := 0
		for strings.HasPrefix(s, "*") {
			ptr++
			s = s[1:]
		}
		if o := e.pkg.Scope().Lookup(s); o != nil {
			if tn, ok := o.(*types.TypeName); ok {
				t := tn.Type()
				for i := 0; i < ptr; i++ {
					t = types.NewPointer(t)
				}
				return t
			}
		}
	}
	return nil
}

func (e *Env) evalIdent(n *ast.Ident) Val {
	switch n.Name {
	case "true":
		return boolVal("true")
	case "false":
		return boolVal("false")
	case "nil":
		return refVal("null", types.Typ[types.UntypedNil])
	case "empty":
		return seqVal("bempty")
	}
	if v, ok := e.vars[n.Name]; ok {
		return v
	}
	if id, ok := ghostGlobals[n.Name]; ok {
		if n.Name == "crashed" {
			return boolVal(e.r.bind(e.st, sx("select", e.st.heap["B"], sx("fld", ghostRoot, fmt.Sprint(id))), n.Name, "Bool"))
		}
		return intVal(e.r.bind(e.st, sx("select", e.st.heap["I"], sx("fld", ghostRoot, fmt.Sprint(id))), n.Name, "Int"), nil)
	}
	if n.Name == "alloc0" {
		return intVal(e.r.alloc0, nil)
	}
	// loop variables (phis by source name) and address-taken locals
	if e.fn != nil {
		if v, ok := e.localByName(n.Name); ok {
			return v
		}
	}
	if sf := e.r.W.Specs.SpecFns[n.Name]; sf != nil && len(sf.Params) == 0 {
		k, _ := sortKind(sf.Ret)
		return Val{K: k, S: n.Name}
	}
	// package-level constants / variables
	if e.pkg != nil {
		if v, ok := e.pkgObject(e.pkg, n.Name); ok {
			return v
		}
	}
	return e.fail("unknown identifier %q", n.Name)
}

func (e *Env) pkgObject(pkg *types.Package, name string) (Val, bool) {
	o := pkg.Scope().Lookup(name)
	if o == nil {
		return Val{}, false
	}
	switch c := o.(type) {
	case *types.Const:
		switch c.Val().Kind() {
		case constant.Int:
			return intVal(sBigStr(c.Val().ExactString()), c.Type()), true
		case constant.Bool:
			if constant.BoolVal(c.Val()) {
				return boolVal("true"), true
			}
			return boolVal("false"), true
		case constant.String:
			return seqVal(e.r.strLit(constant.StringVal(c.Val()))), true
		case constant.Float:
			if i, ok := constant.Int64Val(constant.ToInt(c.Val())); ok {
				return intVal(sInt(i), nil), true
			}
		}
	case *types.Var:
		sp := e.r.W.SSAPkgs[pkg.Path()]
		if sp == nil {
			return Val{}, false
		}
		g, ok := sp.Members[name].(*ssa.Global)
		if !ok {
			return Val{}, false
		}
		if id, ok := e.r.W.Sentinels[g]; ok {
			tagT := types.Type(types.NewPointer(types.Typ[types.Invalid]))
			if dt := e.r.W.SentinelType[g]; dt != nil {
				tagT = dt
			}
			return Val{K: KIface, T: c.Type(), Tag: fmt.Sprint(e.r.W.tagFor(tagT)), Pay: sx("obj", sInt(int64(-1000000-id)))}, true
		}
		if cv, ok := e.r.constGlobal(e.st, g, c.Type()); ok {
			return cv, true
		}
		return e.r.load(e.st, e.r.globalRef(g), c.Type(), name), true
	}
	return Val{}, false
}

func sBigStr(s string) string {
	if strings.HasPrefix(s, "-") {
		return "(- " + s[1:] + ")"
	}
	return s
}

// localByName finds an SSA value of the function carrying the source name:
// a phi at a loop header (comment = variable name), a parameter, or an Alloc
// (address-taken local; the value is loaded).
func (e *Env) localByName(name string) (Val, bool) {
	// prefer phis of the innermost loop headers that are currently cut
	var best ssa.Value
	bestScore := 0
	for _, b := range e.fn.Blocks {
		for _, in := range b.Instrs {
			switch v := in.(type) {
			case *ssa.Phi:
				if v.Comment == name {
					if _, ok := e.st.vals[v]; ok {
						// the phi of the block the clause is attached to wins; then phis of cut
						// loop heads; then any merge point
						score := 1
						if e.st.cuts[b] != nil {
							score = 2
						}
						if e.block != nil && b == e.block {
							score = 3
						}
						if best == nil || score > bestScore || (score == bestScore && score == 2) {
							best, bestScore = v, score
						}
					}
				}
			case *ssa.Alloc:
				if v.Comment == name {
					if pv, ok := e.st.vals[v]; ok {
						return e.r.load(e.st, pv.S, derefType(v.Type()), name), true
					}
				}
			}
		}
	}
	if best != nil {
		return e.st.vals[best], true
	}
	for _, p := range e.fn.Params {
		if p.Name() == name {
			if v, ok := e.st.vals[p]; ok {
				return v, true
			}
		}
	}
	// source-level names through DebugRef (ssa.GlobalDebug).  With a current
	// block known, the definition that dominates it most closely is taken
	// (innermost scope / latest assignment); otherwise the name must be unique.
	var cand ssa.Value
	ncand := 0
	bestDepth, bestIdx := -1, -1
	var dbest ssa.Value
	for _, b := range e.fn.Blocks {
		for idx, in := range b.Instrs {
			d, ok := in.(*ssa.DebugRef)
			if !ok || d.IsAddr {
				continue
			}
			id, ok := d.Expr.(*ast.Ident)
			if !ok || id.Name != name {
				continue
			}
			if _, have := e.st.vals[d.X]; !have {
				if _, isConst := d.X.(*ssa.Const); !isConst {
					continue
				}
			}
			if cand != d.X {
				ncand++
			}
			cand = d.X
			if e.block != nil && (b == e.block || b.Dominates(e.block)) {
				depth := 0
				for x := b; x != nil; x = x.Idom() {
					depth++
				}
				if depth > bestDepth || depth == bestDepth && idx > bestIdx {
					bestDepth, bestIdx, dbest = depth, idx, d.X
				}
			}
		}
	}
	if dbest != nil {
		return e.r.val(e.st, dbest), true
	}
	if ncand == 1 {
		return e.r.val(e.st, cand), true
	}
	for _, fv := range e.fn.FreeVars {
		if fv.Name() == name {
			if v, ok := e.st.vals[fv]; ok {
				// free variables are pointers to the captured variable
				if derefType(fv.Type()) != nil {
					return e.r.load(e.st, v.S, derefType(fv.Type()), name), true
				}
				return v, true
			}
		}
	}
	return Val{}, false
}

// localAlloc: the Alloc instruction of an address-taken local variable.
func (e *Env) localAlloc(name string) *ssa.Alloc {
	var found *ssa.Alloc
	for _, b := range e.fn.Blocks {
		for _, in := range b.Instrs {
			if a, ok := in.(*ssa.Alloc); ok && a.Comment == name {
				if _, have := e.st.vals[a]; have {
					found = a
				}
			}
		}
	}
	return found
}

func (e *Env) evalBinary(n *ast.BinaryExpr) Val {
	switch n.Op {
	case token.LAND:
		a := e.eval(n.X)
		b := e.eval(n.Y)
		return boolVal(sAnd(a.S, b.S))
	case token.LOR:
		a := e.eval(n.X)
		b := e.eval(n.Y)
		return boolVal(sOr(a.S, b.S))
	}
	a := e.eval(n.X)
	b := e.eval(n.Y)
	if e.err != nil {
		return boolVal("false")
	}
	switch n.Op {
	case token.EQL, token.NEQ:
		a2, b2 := a, b
		if a.K != b.K {
			switch {
			case a.K == KRef && a.S == "null" && b.T != nil:
				a2 = zeroVal(b.T)
			case b.K == KRef && b.S == "null" && a.T != nil:
				b2 = zeroVal(a.T)
			case a.K == KRef && a.S == "null" && b.K == KIface:
				a2 = nilIface(nil)
			case b.K == KRef && b.S == "null" && a.K == KIface:
				b2 = nilIface(nil)
			case a.K == KRef && a.S == "null" && b.K == KSlice:
				a2 = nilSlice(nil)
			case b.K == KRef && b.S == "null" && a.K == KSlice:
				b2 = nilSlice(nil)
			default:
				return e.fail("comparison of %v with %v in %s", a.K, b.K, exprString(n))
			}
		}
		var s string
		if a2.K == KSlice && (a2.Bas == "null" || b2.Bas == "null") {
			if b2.Bas == "null" {
				s = sEq(a2.Bas, "null")
			} else {
				s = sEq(b2.Bas, "null")
			}
		} else if a2.K == KIface && (a2.Tag == "0" || b2.Tag == "0") {
			if b2.Tag == "0" {
				s = sEq(a2.Tag, "0")
			} else {
				s = sEq(b2.Tag, "0")
			}
		} else {
			s = valEq(a2, b2)
		}
		if n.Op == token.NEQ {
			s = sNot(s)
		}
		return boolVal(s)
	case token.LSS, token.LEQ, token.GTR, token.GEQ:
		return boolVal(sx(cmpOp(n.Op), a.S, b.S))
	case token.ADD:
		if a.K == KSeq {
			return seqVal(sx("bcat", a.S, b.S))
		}
		return intVal(sAdd(a.S, b.S), nil)
	case token.SUB:
		return intVal(sSub(a.S, b.S), nil)
	case token.MUL:
		return intVal(sMul(a.S, b.S), nil)
	case token.QUO:
		return intVal(sx("div", a.S, b.S), nil)
	case token.REM:
		return intVal(sx("mod", a.S, b.S), nil)
	}
	return e.fail("unsupported binary operator %s", n.Op)
}

func (e *Env) evalSelector(n *ast.SelectorExpr) Val {
	// qualified package identifier?
	if id, ok := n.X.(*ast.Ident); ok {
		if _, isVar := e.vars[id.Name]; !isVar {
			if p := e.importedPkg(id.Name); p != nil {
				if v, ok := e.pkgObject(p, n.Sel.Name); ok {
					return v
				}
				return e.fail("unknown %s.%s", id.Name, n.Sel.Name)
			}
		}
	}
	if id, ok := n.X.(*ast.Ident); ok && e.fn != nil {
		if _, isVar := e.vars[id.Name]; !isVar {
			if a := e.localAlloc(id.Name); a != nil {
				if _, isStruct := derefType(a.Type()).Underlying().(*types.Struct); isStruct {
					ref, t, gs := e.evalAddr(n)
					if e.err != nil {
						return boolVal("false")
					}
					if gs != "" {
						return e.loadGhost(ref, gs, n.Sel.Name)
					}
					return e.r.load(e.st, ref, t, n.Sel.Name)
				}
			}
		}
	}
	x := e.eval(n.X)
	if e.err != nil {
		return boolVal("false")
	}
	if x.K == KStruct {
		s, ok := x.T.Underlying().(*types.Struct)
		if ok {
			if i := structFieldIndex(s, n.Sel.Name); i >= 0 {
				return x.Fs[i]
			}
			for k, gf := range e.r.W.ghostFieldsOf(x.T) {
				if gf.Name == n.Sel.Name && s.NumFields()+k < len(x.Fs) {
					return x.Fs[s.NumFields()+k]
				}
			}
		}
		return e.fail("no field %s in struct value", n.Sel.Name)
	}
	ref, t, gs := e.evalAddr(n)
	if e.err != nil {
		return boolVal("false")
	}
	if gs != "" {
		return e.loadGhost(ref, gs, n.Sel.Name)
	}
	return e.r.load(e.st, ref, t, n.Sel.Name)
}

func (e *Env) loadGhost(ref, sort, hint string) Val {
	switch sort {
	case "Int":
		return intVal(e.r.bind(e.st, sx("select", e.st.heap["I"], ref), hint, "Int"), nil)
	case "Bool":
		return boolVal(e.r.bind(e.st, sx("select", e.st.heap["B"], ref), hint, "Bool"))
	case "BSeq":
		return seqVal(e.r.bind(e.st, sx("select", e.st.heap["S"], ref), hint, "BSeq"))
	case "Ref":
		return refVal(e.r.bind(e.st, sx("select", e.st.heap["R"], ref), hint, "Ref"), nil)
	}
	return e.fail("bad ghost sort %s", sort)
}

func (e *Env) importedPkg(name string) *types.Package {
	if e.pkg != nil {
		for _, p := range e.pkg.Imports() {
			if p.Name() == name {
				return p
			}
		}
		if e.pkg.Name() == name {
			return e.pkg
		}
	}
	// any loaded package with that name (spec files)
	for _, sp := range e.r.W.Prog.AllPackages() {
		if sp.Pkg.Name() == name && strings.HasPrefix(sp.Pkg.Path(), modPath) {
			return sp.Pkg
		}
	}
	for _, sp := range e.r.W.Prog.AllPackages() {
		if sp.Pkg.Name() == name {
			return sp.Pkg
		}
	}
	return nil
}

func typeKey(t types.Type) string {
	for {
		if p, ok := t.(*types.Pointer); ok {
			t = p.Elem()
			continue
		}
		break
	}
	if n, ok := t.(*types.Named); ok {
		if n.Obj().Pkg() != nil {
			return n.Obj().Pkg().Name() + "." + n.Obj().Name()
		}
		return n.Obj().Name()
	}
	return ""
}

// evalAddr computes the address (Ref term) of an lvalue expression together
// with its Go type or ghost sort.
func (e *Env) evalAddr(x ast.Expr) (ref string, t types.Type, ghostSort string) {
	switch n := x.(type) {
	case *ast.ParenExpr:
		return e.evalAddr(n.X)
	case *ast.Ident:
		if id, ok := ghostGlobals[n.Name]; ok {
			if n.Name == "crashed" {
				return sx("fld", ghostRoot, fmt.Sprint(id)), nil, "Bool"
			}
			return sx("fld", ghostRoot, fmt.Sprint(id)), nil, "Int"
		}
		if _, isVar := e.vars[n.Name]; !isVar && e.fn != nil {
			if a := e.localAlloc(n.Name); a != nil {
				return e.st.vals[a].S, derefType(a.Type()), ""
			}
			// a variable captured by a closure: the free variable IS its address
			for _, fv := range e.fn.FreeVars {
				if fv.Name() == n.Name {
					if v, ok := e.st.vals[fv]; ok && derefType(fv.Type()) != nil {
						return v.S, derefType(fv.Type()), ""
					}
				}
			}
		}
		e.fail("cannot take address of %s", n.Name)
		return "null", nil, ""
	case *ast.StarExpr:
		p := e.eval(n.X)
		if p.K != KRef || p.T == nil || derefType(p.T) == nil {
			e.fail("cannot dereference %s", exprString(n.X))
			return "null", nil, ""
		}
		return p.S, derefType(p.T), ""
	case *ast.IndexExpr:
		b := e.eval(n.X)
		i := e.eval(n.Index)
		switch b.K {
		case KSlice:
			return sx("elt", b.Bas, sAdd(b.Off, i.S)), b.T.Underlying().(*types.Slice).Elem(), ""
		case KRef:
			if at, ok := derefType(b.T).Underlying().(*types.Array); ok {
				return sx("elt", b.S, i.S), at.Elem(), ""
			}
		}
		e.fail("cannot index %s for address", exprString(n.X))
		return "null", nil, ""
	case *ast.SelectorExpr:
		// base may itself be an addressable struct field (nested struct values)
		var baseRef string
		var baseT types.Type
		xv := Val{}
		handled := false
		if sel, ok := n.X.(*ast.SelectorExpr); ok {
			// try address of inner selector if it denotes a struct value
			save := e.err
			r2, t2, g2 := e.evalAddr(sel)
			if e.err == nil && g2 == "" && t2 != nil {
				if _, isStruct := t2.Underlying().(*types.Struct); isStruct && !isTimeTime(t2) {
					baseRef, baseT, handled = r2, t2, true
				}
			}
			if !handled {
				e.err = save
			}
		}
		if id, ok := n.X.(*ast.Ident); ok && !handled && e.fn != nil {
			if _, isVar := e.vars[id.Name]; !isVar {
				if a := e.localAlloc(id.Name); a != nil {
					if _, isStruct := derefType(a.Type()).Underlying().(*types.Struct); isStruct {
						baseRef, baseT, handled = e.st.vals[a].S, derefType(a.Type()), true
					}
				}
			}
		}
		if !handled {
			xv = e.eval(n.X)
			if e.err != nil {
				return "null", nil, ""
			}
			switch xv.K {
			case KRef:
				baseRef = xv.S
				if xv.T != nil {
					baseT = derefType(xv.T)
					if baseT == nil {
						// maps and channels are references themselves: ghost fields hang off their own type
						baseT = xv.T
					}
				}
			case KIface:
				baseRef = xv.Pay
				baseT = xv.T
			default:
				e.fail("selector base %s is not a pointer (kind %v)", exprString(n.X), xv.K)
				return "null", nil, ""
			}
		}
		name := n.Sel.Name
		if baseT != nil {
			if s, ok := baseT.Underlying().(*types.Struct); ok {
				if i := structFieldIndex(s, name); i >= 0 {
					return sx("fld", baseRef, fmt.Sprint(i)), s.Field(i).Type(), ""
				}
			}
			if gf := e.r.W.Specs.GhostFields[typeKey(baseT)+"."+name]; gf != nil {
				return sx("fld", baseRef, fmt.Sprint(gf.ID)), nil, gf.Sort
			}
		}
		// ghost fields declared for "any" type
		if gf := e.r.W.Specs.GhostFields["any."+name]; gf != nil {
			return sx("fld", baseRef, fmt.Sprint(gf.ID)), nil, gf.Sort
		}
		e.fail("no field or ghost field %q on %s (type %v)", name, exprString(n.X), baseT)
		return "null", nil, ""
	}
	if call, ok := x.(*ast.CallExpr); ok {
		if id, ok := call.Fun.(*ast.Ident); ok && id.Name == "gref" && len(call.Args) >= 2 {
			b := e.eval(call.Args[0])
			i := e.eval(call.Args[1])
			if e.err != nil {
				return "null", nil, ""
			}
			if b.K != KRef || i.K != KInt {
				e.fail("gref(base, index): base must be a pointer, index an integer")
				return "null", nil, ""
			}
			return sx("elt", sx("fld", b.S, "1010"), i.S), nil, "Ref"
		}
		if id, ok := call.Fun.(*ast.Ident); ok && (id.Name == "file" || id.Name == "fexists") && len(call.Args) == 1 {
			p := e.eval(call.Args[0])
			if e.err != nil {
				return "null", nil, ""
			}
			if p.K != KSeq {
				e.fail("%s(path): path must be a string", id.Name)
				return "null", nil, ""
			}
			cell := sx("elt", sx("fld", ghostRoot, "10"), sx("strkey", p.S))
			if id.Name == "file" {
				return sx("fld", cell, "0"), nil, "BSeq"
			}
			return sx("fld", cell, "1"), nil, "Bool"
		}
	}
	e.fail("not addressable: %s", exprString(x))
	return "null", nil, ""
}

func (e *Env) evalIndex(n *ast.IndexExpr) Val {
	b := e.eval(n.X)
	i := e.eval(n.Index)
	if e.err != nil {
		return boolVal("false")
	}
	switch b.K {
	case KSeq:
		return intVal(sx("bat", b.S, i.S), nil)
	case KArr:
		return intVal(sx("select", b.S, i.S), nil)
	case KSlice:
		et := b.T.Underlying().(*types.Slice).Elem()
		return e.r.load(e.st, sx("elt", b.Bas, sAdd(b.Off, i.S)), et, "idx")
	case KRef:
		if b.T != nil {
			if dt := derefType(b.T); dt != nil {
				if at, ok := dt.Underlying().(*types.Array); ok {
					return e.r.load(e.st, sx("elt", b.S, i.S), at.Elem(), "idx")
				}
			}
			if mt, ok := b.T.Underlying().(*types.Map); ok {
				return e.r.load(e.st, sx("elt", b.S, e.r.mapKey(i)), mt.Elem(), "mapval")
			}
		}
	}
	return e.fail("cannot index %s", exprString(n.X))
}

func (e *Env) evalSliceExpr(n *ast.SliceExpr) Val {
	b := e.eval(n.X)
	lo := "0"
	if n.Low != nil {
		lo = e.eval(n.Low).S
	}
	switch b.K {
	case KSeq:
		hi := sx("blen", b.S)
		if n.High != nil {
			hi = e.eval(n.High).S
		}
		return seqVal(sx("bsub", b.S, lo, hi))
	case KSlice:
		hi := b.Len
		if n.High != nil {
			hi = e.eval(n.High).S
		}
		return Val{K: KSlice, T: b.T, Bas: b.Bas, Off: sAdd(b.Off, lo), Len: sSub(hi, lo), Cap: sSub(b.Cap, lo)}
	case KRef:
		if b.T != nil {
			if at, ok := derefType(b.T).Underlying().(*types.Array); ok {
				hi := fmt.Sprint(at.Len())
				if n.High != nil {
					hi = e.eval(n.High).S
				}
				return Val{K: KSlice, T: types.NewSlice(at.Elem()), Bas: b.S, Off: lo, Len: sSub(hi, lo), Cap: sSub(fmt.Sprint(at.Len()), lo)}
			}
		}
	}
	return e.fail("cannot slice %s", exprString(n.X))
}

func (e *Env) toSeq(v Val) (string, bool) {
	switch v.K {
	case KSeq:
		return v.S, true
	case KSlice:
		return e.r.seqOfSlice(e.st, v), true
	case KArr:
		if at, ok := v.T.Underlying().(*types.Array); ok {
			return sx("seqOf", v.S, "0", fmt.Sprint(at.Len())), true
		}
	case KRef:
		if v.T != nil && derefType(v.T) != nil {
			if at, ok := derefType(v.T).Underlying().(*types.Array); ok {
				return e.r.seqOfArrayPtr(e.st, v.S, at.Len()), true
			}
		}
	}
	return "", false
}

func (e *Env) evalCall(n *ast.CallExpr) Val {
	fname := ""
	if id, ok := n.Fun.(*ast.Ident); ok {
		fname = id.Name
	}
	arg := func(i int) Val { return e.eval(n.Args[i]) }
	need := func(k int) bool {
		if len(n.Args) != k {
			e.fail("%s expects %d arguments", fname, k)
			return false
		}
		return true
	}
	switch fname {
	case "implies":
		if !need(2) {
			return boolVal("false")
		}
		return boolVal(sImp(arg(0).S, arg(1).S))
	case "iff":
		if !need(2) {
			return boolVal("false")
		}
		return boolVal(sEq(arg(0).S, arg(1).S))
	case "ite":
		if !need(3) {
			return boolVal("false")
		}
		c, a, b := arg(0), arg(1), arg(2)
		if a.K == KRef && a.S == "null" && b.K != KRef {
			a = zeroVal(b.T)
		}
		if b.K == KRef && b.S == "null" && a.K != KRef {
			b = zeroVal(a.T)
		}
		out := a
		switch a.K {
		case KInt, KBool, KRef, KSeq, KArr:
			out.S = sIte(c.S, a.S, b.S)
		case KSlice:
			out.Bas, out.Off, out.Len, out.Cap = sIte(c.S, a.Bas, b.Bas), sIte(c.S, a.Off, b.Off), sIte(c.S, a.Len, b.Len), sIte(c.S, a.Cap, b.Cap)
		case KIface:
			out.Tag, out.Pay = sIte(c.S, a.Tag, b.Tag), sIte(c.S, a.Pay, b.Pay)
		}
		return out
	case "old":
		if !need(1) {
			return boolVal("false")
		}
		if e.old == nil {
			return e.fail("old() not available here")
		}
		// evaluate in the old heaps, but record definitions/assumptions in the current state
		saved := map[string]string{}
		for k, v := range e.st.heap {
			saved[k] = v
		}
		for k, v := range e.old.heap {
			e.st.heap[k] = v
		}
		v := arg(0)
		for k, s := range saved {
			e.st.heap[k] = s
		}
		return v
	case "len":
		if !need(1) {
			return boolVal("false")
		}
		v := arg(0)
		switch v.K {
		case KSlice:
			return intVal(v.Len, types.Typ[types.Int])
		case KSeq:
			return intVal(sx("blen", v.S), types.Typ[types.Int])
		case KArr:
			return intVal(fmt.Sprint(v.T.Underlying().(*types.Array).Len()), nil)
		case KRef:
			if v.T != nil {
				if _, ok := v.T.Underlying().(*types.Map); ok {
					return intVal(e.r.mapLen(e.st, v.S), nil)
				}
				if dt := derefType(v.T); dt != nil {
					if at, ok := dt.Underlying().(*types.Array); ok {
						return intVal(fmt.Sprint(at.Len()), nil)
					}
				}
			}
		}
		return e.fail("len of %v", v.K)
	case "cap":
		if !need(1) {
			return boolVal("false")
		}
		v := arg(0)
		if v.K == KSlice {
			return intVal(v.Cap, types.Typ[types.Int])
		}
		return e.fail("cap of %v", v.K)
	case "seq":
		if !need(1) {
			return boolVal("false")
		}
		s, ok := e.toSeq(arg(0))
		if !ok {
			return e.fail("seq() of non-sequence %s", exprString(n.Args[0]))
		}
		return seqVal(s)
	case "cat":
		if len(n.Args) == 0 {
			return seqVal("bempty")
		}
		var parts []string
		for i := range n.Args {
			s, ok := e.toSeq(arg(i))
			if !ok {
				return e.fail("cat() of non-sequence %s", exprString(n.Args[i]))
			}
			parts = append(parts, s)
		}
		out := parts[len(parts)-1]
		for i := len(parts) - 2; i >= 0; i-- {
			out = sx("bcat", parts[i], out)
		}
		return seqVal(out)
	case "sub":
		if !need(3) {
			return boolVal("false")
		}
		s, ok := e.toSeq(arg(0))
		if !ok {
			return e.fail("sub() of non-sequence")
		}
		return seqVal(sx("bsub", s, arg(1).S, arg(2).S))
	case "at":
		if !need(2) {
			return boolVal("false")
		}
		s, ok := e.toSeq(arg(0))
		if !ok {
			return e.fail("at() of non-sequence")
		}
		return intVal(sx("bat", s, arg(1).S), nil)
	case "aseq":
		// aseq(a, o, n): the n bytes of array a starting at o (Arr-sorted a)
		return seqVal(sx("seqOf", arg(0).S, arg(1).S, arg(2).S))
	case "arr":
		// arr(x): the backing array of slice / array pointer x as an Arr value
		v := arg(0)
		switch v.K {
		case KSlice:
			return Val{K: KArr, S: sx("select", e.st.heap["A"], v.Bas)}
		case KRef:
			return Val{K: KArr, S: sx("select", e.st.heap["A"], v.S)}
		case KArr:
			return v
		}
		return e.fail("arr() of non-array")
	case "aget":
		return intVal(sx("select", arg(0).S, arg(1).S), nil)
	case "zeros":
		return seqVal(sx("bzeros", arg(0).S))
	case "be16", "be32", "be64", "bbyte":
		return seqVal(sx(fname, arg(0).S))
	case "unbe":
		s, ok := e.toSeq(arg(0))
		if !ok {
			return e.fail("unbe() of non-sequence")
		}
		return intVal(sx("unbe", s), nil)
	case "min":
		return intVal(sx("imin", arg(0).S, arg(1).S), nil)
	case "max":
		return intVal(sx("imax", arg(0).S, arg(1).S), nil)
	case "bxor", "band", "bor":
		return intVal(sx(fname, arg(0).S, arg(1).S), nil)
	case "f64add", "f64sub", "f64mul", "f64div":
		// the uninterpreted float64 operations the executor uses for +, -, *, / (floating point is
		// not interpreted: two float values are provably equal only if built by the same operations)
		if !need(2) {
			return intVal("0", nil)
		}
		return intVal(sx(fname, arg(0).S, arg(1).S), nil)
	case "f64ofint", "f64const":
		if !need(1) {
			return intVal("0", nil)
		}
		return intVal(sx(fname, arg(0).S), nil)
	case "forall", "exists":
		// forall(i, body) | forall(i, lo, hi, body)   (i ranges over Int; lo <= i < hi)
		if len(n.Args) != 2 && len(n.Args) != 4 {
			return e.fail("%s(i, [lo, hi,] body)", fname)
		}
		id, ok := n.Args[0].(*ast.Ident)
		if !ok {
			return e.fail("%s: first argument must be a variable", fname)
		}
		vname := "q!" + id.Name
		sub := *e
		sub.vars = map[string]Val{}
		for k, v := range e.vars {
			sub.vars[k] = v
		}
		sub.vars[id.Name] = intVal(vname, nil)
		// evaluating the body must not add assumptions mentioning the bound
		// variable to the path; evaluate on a scratch state
		scratch := e.st.clone()
		pc0 := scratch.pc
		sub.st = scratch
		e.r.noBind++
		var body string
		if len(n.Args) == 2 {
			body = sub.eval(n.Args[1]).S
		} else {
			lo := sub.eval(n.Args[1]).S
			hi := sub.eval(n.Args[2]).S
			b := sub.eval(n.Args[3]).S
			rng := sAnd(sx("<=", lo, vname), sx("<", vname, hi))
			if fname == "forall" {
				body = sImp(rng, b)
			} else {
				body = sAnd(rng, b)
			}
		}
		e.r.noBind--
		if sub.err != nil {
			e.err = sub.err
		}
		// definitions introduced while evaluating the body
		var defs []string
		for q := scratch.pc; q != pc0 && q != nil; q = q.prev {
			defs = append(defs, q.s)
		}
		// definitions that do not mention the bound variable are hoisted
		var inner []string
		for i := len(defs) - 1; i >= 0; i-- {
			if strings.Contains(defs[i], vname) {
				inner = append(inner, defs[i])
			} else {
				e.st.assume(defs[i])
			}
		}
		for _, d := range inner {
			// with binding disabled only range / well-formedness facts about
			// terms mentioning the bound variable remain; they are dropped
			if strings.HasPrefix(d, "(= ") && strings.Contains(strings.SplitN(d, " ", 3)[1], "!") && !strings.HasPrefix(strings.SplitN(d, " ", 3)[1], "(") {
				return e.fail("%s body introduces a definition depending on the bound variable: %s", fname, trunc(d, 120))
			}
		}
		// hoist a pattern annotation of the body to the quantifier
		if strings.HasPrefix(body, "(=> ") {
			parts := splitSexp(body[4 : len(body)-1])
			if len(parts) == 2 && strings.HasPrefix(parts[1], "(! ") {
				inner := parts[1][3 : len(parts[1])-1]
				if k := strings.LastIndex(inner, " :pattern "); k > 0 {
					body = "(! (=> " + parts[0] + " " + inner[:k] + ")" + inner[k:] + ")"
				}
			}
		}
		return boolVal(sx(fname, "(("+vname+" Int))", body))
	case "fresh":
		v := arg(0)
		ref := v.S
		if v.K == KSlice {
			ref = v.Bas
		} else if v.K == KIface {
			ref = v.Pay
		}
		base := e.r.alloc0
		if e.old != nil {
			base = e.old.alloc
		}
		return boolVal(sx(">=", sx("rootid", ref), base))
	case "allocated":
		// allocated(x): x is nil or points into an object that exists in the current state
		v := arg(0)
		ref := v.S
		if v.K == KSlice {
			ref = v.Bas
		} else if v.K == KIface {
			ref = v.Pay
		}
		return boolVal(sx("<", sx("rootid", ref), e.st.alloc))
	case "typeis":
		if !need(2) {
			return boolVal("false")
		}
		v := arg(0)
		lit, ok := n.Args[1].(*ast.BasicLit)
		if !ok || v.K != KIface {
			return e.fail("typeis(iface, \"T\")")
		}
		name, _ := strconv.Unquote(lit.Value)
		t := e.r.W.lookupType(name)
		if t == nil {
			return e.fail("typeis: unknown type %s", name)
		}
		return boolVal(sEq(v.Tag, fmt.Sprint(e.r.W.tagFor(t))))
	case "payload":
		v := arg(0)
		if v.K != KIface {
			return e.fail("payload of non-interface")
		}
		return refVal(v.Pay, nil)
	case "tag":
		v := arg(0)
		if v.K != KIface {
			return e.fail("tag of non-interface")
		}
		return intVal(v.Tag, nil)
	case "base":
		v := arg(0)
		if v.K != KSlice {
			return e.fail("base of non-slice")
		}
		return refVal(v.Bas, nil)
	case "offset":
		v := arg(0)
		if v.K != KSlice {
			return e.fail("offset of non-slice")
		}
		return intVal(v.Off, nil)
	case "issentinel":
		v := arg(0)
		if v.K != KIface {
			return e.fail("issentinel of non-interface")
		}
		return boolVal(sEq(v.Tag, fmt.Sprint(e.r.W.tagFor(types.NewPointer(types.Typ[types.Invalid])))))
	case "whole":
		// whole(p): p is null or points to a whole allocated object (not into the middle of one)
		v := arg(0)
		ref := v.S
		if v.K == KIface {
			ref = v.Pay
		}
		return boolVal(sOr(sEq(ref, "null"), sx("(_ is obj)", ref)))
	case "outside":
		// outside(x, p): the storage of slice/pointer x is not inside the object p points to
		if !need(2) {
			return boolVal("false")
		}
		x, p := arg(0), arg(1)
		xr := x.S
		if x.K == KSlice {
			xr = x.Bas
		} else if x.K == KIface {
			xr = x.Pay
		}
		pr := p.S
		if p.K == KIface {
			pr = p.Pay
		}
		if p.K == KRef && p.T != nil && derefType(p.T) != nil && e.r.noBind == 0 {
			// field types of the object: a slice base can only be one of its array-typed fields
			e.r.assumeFieldTypes(e.st, pr, derefType(p.T), 0)
		}
		return boolVal(sNot(sx("withineq", xr, pr)))
	case "unchanged":
		var parts []string
		for _, a := range n.Args {
			cur := e.eval(a)
			oldc := &ast.CallExpr{Fun: ast.NewIdent("old"), Args: []ast.Expr{a}}
			o := e.eval(oldc)
			parts = append(parts, valEq(cur, o))
		}
		return boolVal(sAnd(parts...))
	case "withpat":
		b := arg(0)
		var pats []string
		for i := 1; i < len(n.Args); i++ {
			v := arg(i)
			s := v.S
			if v.K == KSlice {
				s = v.Len
			}
			pats = append(pats, s)
		}
		return boolVal("(! " + b.S + " :pattern (" + strings.Join(pats, " ") + "))")
	case "asptr":
		// asptr(ref, "*T"): a ghost reference viewed as a typed pointer
		if !need(2) {
			return boolVal("false")
		}
		v := arg(0)
		lit, ok := n.Args[1].(*ast.BasicLit)
		if !ok || v.K != KRef {
			return e.fail("asptr(ref, \"*T\")")
		}
		name, _ := strconv.Unquote(lit.Value)
		t := e.r.W.lookupType(name)
		if t == nil {
			return e.fail("asptr: unknown type %s", name)
		}
		return refVal(v.S, t)
	case "gref":
		// gref(base, i[, "T"]): ghost family of references indexed by an integer, attached to an object
		ref, _, _ := e.evalAddr(n)
		if e.err != nil {
			return boolVal("false")
		}
		var t types.Type
		if len(n.Args) == 3 {
			if lit, ok := n.Args[2].(*ast.BasicLit); ok {
				name, _ := strconv.Unquote(lit.Value)
				t = e.r.W.lookupType(name)
				if t == nil {
					return e.fail("gref: unknown type %s", name)
				}
			}
		}
		v := refVal(e.r.bind(e.st, sx("select", e.st.heap["R"], ref), "gref", "Ref"), t)
		return v
	case "file", "fexists":
		// ghost file system: one cell per path under the ghost root (content / existence)
		ref, _, gs := e.evalAddr(n)
		if e.err != nil {
			return boolVal("false")
		}
		return e.loadGhost(ref, gs, fname)
	case "recvcat", "sentcat":
		v := arg(0)
		id := map[string]string{"recvcat": "906", "sentcat": "907"}[fname]
		return seqVal(e.r.bind(e.st, sx("select", e.st.heap["S"], sx("fld", v.S, id)), fname, "BSeq"))
	case "recvsum", "recvcount", "sentcount", "chanclosed", "sentsum", "polled":
		// polled(ch): how many times a receive on ch was offered to the scheduler (a plain receive, or a
		// receive case of a select, whichever case was taken) - "the code looked at this channel"
		v := arg(0)
		id := map[string]int{"recvsum": 901, "recvcount": 902, "sentcount": 903, "chanclosed": 904, "sentsum": 905, "polled": 908}[fname]
		cell := sx("fld", v.S, fmt.Sprint(id))
		if fname == "chanclosed" {
			return boolVal(e.r.bind(e.st, sx("select", e.st.heap["B"], cell), fname, "Bool"))
		}
		return intVal(e.r.bind(e.st, sx("select", e.st.heap["I"], cell), fname, "Int"), nil)
	case "oncedone":
		// oncedone(x.once): the sync.Once stored in that field has run its function (ghost cell 910)
		if !need(1) {
			return boolVal("false")
		}
		ref, _, _ := e.evalAddr(n.Args[0])
		if e.err != nil {
			return boolVal("false")
		}
		return boolVal(sx("select", e.st.heap["B"], sx("fld", ref, "910")))
	case "maphas":
		m, k := arg(0), arg(1)
		return boolVal(sx("select", e.st.heap["B"], sx("elt", m.S, e.r.mapKey(k))))
	case "int", "uint16", "uint32", "uint64", "uint8", "int64", "byte":
		return intVal(arg(0).S, nil)
	case "star", "elems":
		return e.fail("%s() is only valid in modifies clauses", fname)
	}
	if fname == "funcref" {
		lit, ok := n.Args[0].(*ast.BasicLit)
		if !ok {
			return e.fail("funcref(\"pkg.Func\")")
		}
		name, _ := strconv.Unquote(lit.Value)
		fn := e.r.W.FuncByKey[name]
		if fn == nil {
			return e.fail("funcref: unknown function %s", name)
		}
		return refVal(e.r.funcRef(fn), nil)
	}
	if pd := e.r.W.Specs.Preds[fname]; pd != nil {
		if len(n.Args) != len(pd.Params) {
			return e.fail("pred %s expects %d args", fname, len(pd.Params))
		}
		sub := *e
		sub.vars = map[string]Val{}
		for k, v := range e.vars {
			sub.vars[k] = v
		}
		for i, p := range pd.Params {
			sub.vars[p] = arg(i)
		}
		if pd.Pkg != "" {
			if sp := e.r.W.SSAPkgs[pd.Pkg]; sp != nil {
				sub.pkg = sp.Pkg
			}
		}
		sub.fn = nil
		v := sub.eval(pd.Body)
		if sub.err != nil && e.err == nil {
			e.err = fmt.Errorf("in pred %s: %v", fname, sub.err)
		}
		return v
	}
	// spec function application
	if sf := e.r.W.Specs.SpecFns[fname]; sf != nil {
		if len(n.Args) != len(sf.Params) {
			return e.fail("spec fn %s expects %d args", fname, len(sf.Params))
		}
		var as []string
		for i := range n.Args {
			v := arg(i)
			want, _ := sortKind(sf.Sorts[i])
			switch {
			case want == KSeq:
				s, ok := e.toSeq(v)
				if !ok {
					return e.fail("spec fn %s arg %d: expected a byte sequence", fname, i)
				}
				as = append(as, s)
			case want == KRef && v.K == KIface:
				as = append(as, v.Pay)
			case want == KRef && v.K == KSlice:
				as = append(as, v.Bas)
			default:
				if v.K != want && !(want == KRef && v.K == KOpaque) {
					return e.fail("spec fn %s arg %d: expected %s got %v", fname, i, sf.Sorts[i], v.K)
				}
				as = append(as, v.S)
			}
		}
		k, _ := sortKind(sf.Ret)
		return Val{K: k, S: sx(fname, as...)}
	}
	return e.fail("unknown function %q in contract expression", exprString(n.Fun))
}
