package main

// Structural obligations decided on the SSA / call graph (not by SMT).

func (w *World) runStructChecks(prop string) ([]structResult, error) {
	var out []structResult
	for _, sc := range w.Specs.StructChecks {
		serves := false
		for _, s := range sc.Serves {
			if s == prop {
				serves = true
			}
		}
		if !serves {
			continue
		}
		res, err := w.structCheck(sc)
		if err != nil {
			return nil, err
		}
		out = append(out, res)
	}
	return out, nil
}
