package main

// Contract / spec file parser.  Contracts live in comment-only Go files
// (/repo/<pkg>/verif_contracts.go, build tag verif) and in /verif/specs/*.spec
// (trusted specifications of dependencies).  Every directive line starts
// with "//@".

import (
	"fmt"
	"go/ast"
	"go/parser"
	"os"
	"regexp"
	"strconv"
	"strings"
)

type Clause struct {
	Label string   // may be "" ; "C09:tail_on_target" => Props=[C09], Name=tail_on_target
	Props []string // properties this clause is attributed to (empty => contract's serves)
	Name  string
	Src   string
	Expr  ast.Expr
	File  string
	Line  int
}

type GhostDef struct {
	Name string
	Expr ast.Expr
	Src  string
}

type LoopSpec struct {
	Invariants []*Clause
	Decreases  []*Clause
	Modifies   []ast.Expr
	HasMod     bool
}

type Contract struct {
	Key       string // function key as written
	Pkg       string // package path of the contract file ("" for spec files)
	Params    []string
	Results   []string
	Serves    []string
	Requires  []*Clause
	Ensures   []*Clause
	Modifies  []ast.Expr
	HasMod    bool
	Ghosts    []GhostDef
	GhostSets []GhostSet // ghost cells defined by the contract at function exit
	Loops     map[int]*LoopSpec
	PanicsIf  []*Clause
	Trusted   bool
	Pure      bool
	Fresh     bool // result is freshly allocated
	Opts      map[string]string
	File      string
	Line      int
	Relies    []string
	AssertAt  []*AssertAt
	NoBody    bool // contract is used at call sites but body is not verified (listed as assumption)
	WhyNoBody string
}

// GhostSet: "ghostset <ghost lvalue> := <expr>" - the function's effect on a ghost cell, applied at
// every return before the postconditions are checked (ghost state is never read by the real code).
type GhostSet struct {
	LHS, RHS ast.Expr
	Src      string
}

// LockInv: "lockinv T protects <frame items> := <invariant over self>".  Acquiring the sync.Mutex
// embedded in a T havocs the protected frame and assumes the invariant (other goroutines may have
// changed the state, but every Unlock re-establishes the invariant); releasing it is an obligation.
type LockInv struct {
	Type  string
	Items []ast.Expr
	Inv   ast.Expr
	Src   string
	File  string
}

type AssertAt struct {
	Callee string // substring of the callee name
	Clause *Clause
}

type SpecFn struct {
	Name   string
	Params []string
	Sorts  []string
	Ret    string
	Body   ast.Expr // nil => uninterpreted
	Src    string
	File   string
}

type Pred struct {
	Name   string
	Params []string
	Body   ast.Expr
	Src    string
	File   string
	Pkg    string
}

// FieldInv: an invariant of a struct field, assumed whenever the field is loaded
// (trusted facts about fields of dependency types, or representation invariants).
type FieldInv struct {
	Type  string // pkgname.Type
	Field string
	Expr  ast.Expr // over the variable v
	Src   string
	File  string
}

type LitPred struct {
	Pred string
	Re   *regexp.Regexp
}

type Axiom struct {
	Name string
	Expr ast.Expr
	Src  string
	File string
	Pkg  string
	Vars []string // quantified variable declarations "x Int"
}

type Lemma struct {
	Name     string
	Serves   []string
	Vars     []string // "x Sort"
	Requires []*Clause
	Ensures  []*Clause
	File     string
	Pkg      string
}

type GhostField struct {
	Type string // e.g. "bytes.Buffer" (package name . type name)
	Name string
	Sort string
	ID   int
}

type ConstCheck struct {
	Name   string
	Serves []string
	Expr   ast.Expr
	Src    string
	Pkg    string
	File   string
}

type StructCheck struct {
	Name   string
	Serves []string
	Kind   string
	Args   []string
	Pkg    string
	File   string
	Line   int
}

type Specs struct {
	Contracts    map[string]*Contract // key: pkgpath + "|" + Key (repo contracts) or Key (spec files)
	SpecFns      map[string]*SpecFn
	Preds        map[string]*Pred
	FieldInvs    map[string]*FieldInv
	Relies       []string
	LitPreds     []LitPred
	GlobalInvs   []*Pred
	LockInvs     map[string]*LockInv // by type key: invariant protected by the embedded sync.Mutex
	Axioms       []*Axiom
	Lemmas       []*Lemma
	GhostFields  map[string]*GhostField // "bytes.Buffer.content"
	ghostAuto    int                    // number of ghost fields with automatically assigned ids
	ConstChecks  []*ConstCheck
	StructChecks []*StructCheck
	Order        []*Contract
}

func newSpecs() *Specs {
	return &Specs{Contracts: map[string]*Contract{}, SpecFns: map[string]*SpecFn{}, GhostFields: map[string]*GhostField{}, Preds: map[string]*Pred{}, FieldInvs: map[string]*FieldInv{}}
}

var labelRe = regexp.MustCompile(`^\[([A-Za-z0-9_:,.\-]+)\]\s*`)

func parseClause(src, file string, line int) (*Clause, error) {
	c := &Clause{Src: src, File: file, Line: line}
	s := strings.TrimSpace(src)
	if m := labelRe.FindStringSubmatch(s); m != nil {
		c.Label = m[1]
		s = s[len(m[0]):]
		if i := strings.LastIndex(c.Label, ":"); i >= 0 {
			c.Props = strings.Split(c.Label[:i], ",")
			c.Name = c.Label[i+1:]
		} else {
			c.Name = c.Label
		}
	}
	e, err := parseExpr(s)
	if err != nil {
		return nil, fmt.Errorf("%s:%d: %v (in %q)", file, line, err, s)
	}
	c.Expr = e
	c.Src = s
	return c, nil
}

func parseExpr(s string) (ast.Expr, error) {
	r := rewriteImplies(s)
	return parser.ParseExpr(r)
}

// rewriteImplies turns  A ==> B  into implies(A, B) and A <==> B into iff(A,B)
// at every parenthesis level (right associative, lowest precedence).
func rewriteImplies(s string) string {
	// top level: split on commas first (argument lists), then on ==>
	parts := splitTop(s, ",")
	if len(parts) > 1 {
		for i := range parts {
			parts[i] = rewriteImplies(parts[i])
		}
		return strings.Join(parts, ",")
	}
	if i := findTop(s, "<==>"); i >= 0 {
		return "iff(" + rewriteImplies(s[:i]) + ", " + rewriteImplies(s[i+4:]) + ")"
	}
	if i := findTop(s, "==>"); i >= 0 {
		return "implies(" + rewriteImplies(s[:i]) + ", " + rewriteImplies(s[i+3:]) + ")"
	}
	// recurse into bracket groups
	var b strings.Builder
	i := 0
	for i < len(s) {
		c := s[i]
		if c == '"' {
			j := i + 1
			for j < len(s) && s[j] != '"' {
				if s[j] == '\\' {
					j++
				}
				j++
			}
			b.WriteString(s[i:min(j+1, len(s))])
			i = j + 1
			continue
		}
		if c == '(' || c == '[' {
			j := matchClose(s, i)
			if j < 0 {
				b.WriteString(s[i:])
				break
			}
			b.WriteByte(c)
			b.WriteString(rewriteImplies(s[i+1 : j]))
			b.WriteByte(s[j])
			i = j + 1
			continue
		}
		b.WriteByte(c)
		i++
	}
	return b.String()
}

func matchClose(s string, i int) int {
	d := 0
	for j := i; j < len(s); j++ {
		switch s[j] {
		case '"':
			j++
			for j < len(s) && s[j] != '"' {
				if s[j] == '\\' {
					j++
				}
				j++
			}
		case '(', '[', '{':
			d++
		case ')', ']', '}':
			d--
			if d == 0 {
				return j
			}
		}
	}
	return -1
}

func findTop(s, tok string) int {
	d := 0
	for j := 0; j < len(s); j++ {
		switch s[j] {
		case '"':
			j++
			for j < len(s) && s[j] != '"' {
				if s[j] == '\\' {
					j++
				}
				j++
			}
		case '(', '[', '{':
			d++
		case ')', ']', '}':
			d--
		default:
			if d == 0 && strings.HasPrefix(s[j:], tok) {
				// do not confuse ==> with <==>
				if tok == "==>" && j > 0 && s[j-1] == '<' {
					continue
				}
				return j
			}
		}
	}
	return -1
}

func splitTop(s, sep string) []string {
	var out []string
	d := 0
	last := 0
	for j := 0; j < len(s); j++ {
		switch s[j] {
		case '"':
			j++
			for j < len(s) && s[j] != '"' {
				if s[j] == '\\' {
					j++
				}
				j++
			}
		case '(', '[', '{':
			d++
		case ')', ']', '}':
			d--
		default:
			if d == 0 && strings.HasPrefix(s[j:], sep) {
				out = append(out, s[last:j])
				last = j + len(sep)
				j += len(sep) - 1
			}
		}
	}
	out = append(out, s[last:])
	return out
}

var funcHdrRe = regexp.MustCompile(`^func\s+(.+?)\(([^()]*)\)\s*(?:\(([^()]*)\))?\s*$`)

func splitNames(s string) []string {
	var out []string
	for _, p := range strings.Split(s, ",") {
		p = strings.TrimSpace(p)
		if p != "" {
			out = append(out, p)
		}
	}
	return out
}

var keywords = map[string]bool{"func": true, "serves": true, "requires": true, "ensures": true, "modifies": true,
	"ghost": true, "ghostset": true, "loop": true, "panics_if": true, "trusted": true, "pure": true, "spec": true, "axiom": true,
	"ghostfield": true, "opt": true, "assert_at": true, "rely": true, "lemma": true, "const": true, "struct": true,
	"fresh": true, "nobody": true, "end": true, "vars": true, "pred": true, "fieldinv": true, "assume": true, "litpred": true, "globalinv": true, "lockinv": true}

// parseSpecFile reads all //@ directives of a file.
func (sp *Specs) parseFile(path, pkgPath string) error {
	data, err := os.ReadFile(path)
	if err != nil {
		return err
	}
	type dline struct {
		text string
		line int
	}
	var lines []dline
	for i, l := range strings.Split(string(data), "\n") {
		t := strings.TrimSpace(l)
		if !strings.HasPrefix(t, "//@") {
			continue
		}
		body := strings.TrimRight(t[3:], " \t")
		if strings.TrimSpace(body) == "" {
			continue
		}
		first := strings.Fields(body)[0]
		if keywords[first] {
			lines = append(lines, dline{strings.TrimSpace(body), i + 1})
		} else if len(lines) > 0 {
			lines[len(lines)-1].text += " " + strings.TrimSpace(body)
		} else {
			return fmt.Errorf("%s:%d: continuation line without directive", path, i+1)
		}
	}
	var cur *Contract
	var curLemma *Lemma
	for _, dl := range lines {
		f := strings.Fields(dl.text)
		kw := f[0]
		rest := strings.TrimSpace(dl.text[len(kw):])
		errf := func(format string, a ...any) error {
			return fmt.Errorf("%s:%d: %s", path, dl.line, fmt.Sprintf(format, a...))
		}
		switch kw {
		case "func":
			m := funcHdrRe.FindStringSubmatch(dl.text)
			if m == nil {
				return errf("bad func header %q", dl.text)
			}
			cur = &Contract{Key: strings.TrimSpace(m[1]), Pkg: pkgPath, Params: splitNames(m[2]), Results: splitNames(m[3]),
				Loops: map[int]*LoopSpec{}, Opts: map[string]string{}, File: path, Line: dl.line}
			curLemma = nil
			k := cur.Key
			if pkgPath != "" {
				k = pkgPath + "|" + k
			}
			if _, dup := sp.Contracts[k]; dup {
				return errf("duplicate contract for %s", k)
			}
			sp.Contracts[k] = cur
			sp.Order = append(sp.Order, cur)
		case "end":
			cur, curLemma = nil, nil
		case "serves":
			if curLemma != nil {
				curLemma.Serves = f[1:]
			} else if cur != nil {
				cur.Serves = f[1:]
			} else {
				return errf("serves outside block")
			}
		case "requires", "ensures", "panics_if":
			c, err := parseClause(rest, path, dl.line)
			if err != nil {
				return err
			}
			if curLemma != nil {
				if kw == "requires" {
					curLemma.Requires = append(curLemma.Requires, c)
				} else {
					curLemma.Ensures = append(curLemma.Ensures, c)
				}
				continue
			}
			if cur == nil {
				return errf("%s outside func block", kw)
			}
			switch kw {
			case "requires":
				cur.Requires = append(cur.Requires, c)
			case "ensures":
				cur.Ensures = append(cur.Ensures, c)
			default:
				cur.PanicsIf = append(cur.PanicsIf, c)
			}
		case "modifies":
			if cur == nil {
				return errf("modifies outside func block")
			}
			cur.HasMod = true
			for _, p := range splitTop(rest, ",") {
				p = strings.TrimSpace(p)
				if p == "" || p == "nothing" {
					continue
				}
				e, err := parseModItem(p)
				if err != nil {
					return errf("modifies %q: %v", p, err)
				}
				cur.Modifies = append(cur.Modifies, e)
			}
		case "ghostset":
			if cur == nil {
				return errf("ghostset outside func block")
			}
			i := strings.Index(rest, ":=")
			if i < 0 {
				return errf("ghostset needs :=")
			}
			l, err := parseExpr(strings.TrimSpace(rest[:i]))
			if err != nil {
				return errf("ghostset: %v", err)
			}
			rh, err := parseExpr(strings.TrimSpace(rest[i+2:]))
			if err != nil {
				return errf("ghostset: %v", err)
			}
			cur.GhostSets = append(cur.GhostSets, GhostSet{LHS: l, RHS: rh, Src: rest})
		case "ghost":
			if cur == nil {
				return errf("ghost outside func block")
			}
			i := strings.Index(rest, ":=")
			if i < 0 {
				return errf("ghost needs :=")
			}
			e, err := parseExpr(strings.TrimSpace(rest[i+2:]))
			if err != nil {
				return errf("ghost: %v", err)
			}
			cur.Ghosts = append(cur.Ghosts, GhostDef{Name: strings.TrimSpace(rest[:i]), Expr: e, Src: rest})
		case "loop":
			if cur == nil || len(f) < 3 {
				return errf("bad loop directive")
			}
			n, err := strconv.Atoi(f[1])
			if err != nil {
				return errf("loop ordinal: %v", err)
			}
			ls := cur.Loops[n]
			if ls == nil {
				ls = &LoopSpec{}
				cur.Loops[n] = ls
			}
			sub := f[2]
			r2 := strings.TrimSpace(rest[strings.Index(rest, sub)+len(sub):])
			switch sub {
			case "invariant", "decreases":
				c, err := parseClause(r2, path, dl.line)
				if err != nil {
					return err
				}
				if sub == "invariant" {
					ls.Invariants = append(ls.Invariants, c)
				} else {
					ls.Decreases = append(ls.Decreases, c)
				}
			case "modifies":
				ls.HasMod = true
				for _, p := range splitTop(r2, ",") {
					p = strings.TrimSpace(p)
					if p == "" || p == "nothing" {
						continue
					}
					e, err := parseModItem(p)
					if err != nil {
						return errf("loop modifies %q: %v", p, err)
					}
					ls.Modifies = append(ls.Modifies, e)
				}
			default:
				return errf("unknown loop clause %q", sub)
			}
		case "trusted":
			if cur == nil {
				return errf("trusted outside block")
			}
			cur.Trusted = true
		case "nobody":
			if cur == nil {
				return errf("nobody outside block")
			}
			cur.NoBody = true
			cur.WhyNoBody = rest
		case "pure":
			if cur == nil {
				return errf("pure outside block")
			}
			cur.Pure = true
		case "fresh":
			if cur == nil {
				return errf("fresh outside block")
			}
			cur.Fresh = true
		case "opt":
			if cur == nil || len(f) < 2 {
				return errf("bad opt")
			}
			v := "1"
			if len(f) > 2 {
				v = strings.Join(f[2:], " ")
			}
			cur.Opts[f[1]] = v
		case "rely":
			if cur == nil {
				return errf("rely outside block")
			}
			cur.Relies = append(cur.Relies, rest)
		case "assert_at":
			if cur == nil || len(f) < 3 {
				return errf("bad assert_at")
			}
			r2 := strings.TrimSpace(rest[len(f[1]):])
			c, err := parseClause(r2, path, dl.line)
			if err != nil {
				return err
			}
			cur.AssertAt = append(cur.AssertAt, &AssertAt{Callee: f[1], Clause: c})
		case "spec":
			// spec fn NAME(a Int, b BSeq) Sort [= body]
			r := strings.TrimSpace(strings.TrimPrefix(rest, "fn"))
			body := ""
			if i := findTop(r, ":="); i >= 0 {
				body = strings.TrimSpace(r[i+2:])
				r = strings.TrimSpace(r[:i])
			}
			op := strings.Index(r, "(")
			cl := matchClose(r, op)
			if op < 0 || cl < 0 {
				return errf("bad spec fn %q", rest)
			}
			sf := &SpecFn{Name: strings.TrimSpace(r[:op]), Ret: strings.TrimSpace(r[cl+1:]), Src: rest, File: path}
			for _, p := range splitNames(r[op+1 : cl]) {
				pf := strings.Fields(p)
				if len(pf) != 2 {
					return errf("spec fn param %q", p)
				}
				sf.Params = append(sf.Params, pf[0])
				sf.Sorts = append(sf.Sorts, pf[1])
			}
			if body != "" {
				e, err := parseExpr(body)
				if err != nil {
					return errf("spec fn body: %v", err)
				}
				sf.Body = e
			}
			if _, dup := sp.SpecFns[sf.Name]; dup {
				return errf("duplicate spec fn %s", sf.Name)
			}
			sp.SpecFns[sf.Name] = sf
			cur = nil
		case "lockinv":
			i := findTop(rest, ":=")
			j := strings.Index(rest, " protects ")
			if i < 0 || j < 0 || j > i {
				return errf("lockinv T protects items := invariant")
			}
			li := &LockInv{Type: strings.TrimSpace(rest[:j]), Src: rest, File: path}
			for _, it := range splitTop(rest[j+len(" protects "):i], ",") {
				e, err := parseModItem(strings.TrimSpace(it))
				if err != nil {
					return errf("lockinv item: %v", err)
				}
				li.Items = append(li.Items, e)
			}
			e, err := parseExpr(strings.TrimSpace(rest[i+2:]))
			if err != nil {
				return errf("lockinv: %v", err)
			}
			li.Inv = e
			if sp.LockInvs == nil {
				sp.LockInvs = map[string]*LockInv{}
			}
			sp.LockInvs[li.Type] = li
			cur = nil
		case "globalinv":
			// globalinv NAME := expr  -- invariant over package-level variables that are written only
			// by the package initialiser; assumed at entry and after every havoc
			i := findTop(rest, ":=")
			if i < 0 {
				return errf("globalinv NAME := expr")
			}
			e, err := parseExpr(strings.TrimSpace(rest[i+2:]))
			if err != nil {
				return errf("globalinv: %v", err)
			}
			sp.GlobalInvs = append(sp.GlobalInvs, &Pred{Name: strings.TrimSpace(rest[:i]), Body: e, Src: rest, File: path, Pkg: pkgPath})
			cur = nil
		case "litpred":
			// litpred PRED regexp : PRED(lit) holds for every string literal whose text matches
			if len(f) < 3 {
				return errf("litpred PRED regexp")
			}
			re, err := regexp.Compile(strings.TrimSpace(strings.TrimPrefix(rest, f[1])))
			if err != nil {
				return errf("litpred: %v", err)
			}
			sp.LitPreds = append(sp.LitPreds, LitPred{Pred: f[1], Re: re})
		case "assume":
			// assume <free text>: a stated, unchecked assumption (copied into the evidence)
			sp.Relies = append(sp.Relies, rest)
		case "fieldinv":
			// fieldinv pkg.Type Field expr-over-v
			if len(f) < 4 {
				return errf("fieldinv TYPE FIELD expr")
			}
			r2 := strings.TrimSpace(strings.TrimPrefix(strings.TrimSpace(strings.TrimPrefix(rest, f[1])), f[2]))
			e, err := parseExpr(r2)
			if err != nil {
				return errf("fieldinv: %v", err)
			}
			sp.FieldInvs[f[1]+"."+f[2]] = &FieldInv{Type: f[1], Field: f[2], Expr: e, Src: rest, File: path}
			cur = nil
		case "pred":
			// pred NAME(a, b) := body   (macro over the current heap)
			i := findTop(rest, ":=")
			op := strings.Index(rest, "(")
			if i < 0 || op < 0 || op > i {
				return errf("pred NAME(params) := body")
			}
			cl := matchClose(rest, op)
			e, err := parseExpr(strings.TrimSpace(rest[i+2:]))
			if err != nil {
				return errf("pred: %v", err)
			}
			pd := &Pred{Name: strings.TrimSpace(rest[:op]), Params: splitNames(rest[op+1 : cl]), Body: e, Src: rest, File: path, Pkg: pkgPath}
			key := pd.Name
			if _, dup := sp.Preds[key]; dup {
				return errf("duplicate pred %s", key)
			}
			sp.Preds[key] = pd
			cur = nil
		case "axiom":
			// axiom [name] (x Int, s BSeq) expr     -- variables optional
			c := rest
			name := ""
			if m := labelRe.FindStringSubmatch(c); m != nil {
				name = m[1]
				c = c[len(m[0]):]
			}
			ax := &Axiom{Name: name, File: path, Pkg: pkgPath}
			c = strings.TrimSpace(c)
			if strings.HasPrefix(c, "forall ") {
				// forall x Int, y BSeq :: body
				i := strings.Index(c, "::")
				if i < 0 {
					return errf("axiom forall needs ::")
				}
				ax.Vars = splitNames(c[len("forall "):i])
				c = strings.TrimSpace(c[i+2:])
			}
			e, err := parseExpr(c)
			if err != nil {
				return errf("axiom: %v", err)
			}
			ax.Expr, ax.Src = e, rest
			sp.Axioms = append(sp.Axioms, ax)
			cur = nil
		case "lemma":
			curLemma = &Lemma{Name: f[1], File: path, Pkg: pkgPath}
			sp.Lemmas = append(sp.Lemmas, curLemma)
			cur = nil
		case "vars":
			if curLemma == nil {
				return errf("vars outside lemma")
			}
			curLemma.Vars = append(curLemma.Vars, splitNames(rest)...)
		case "ghostfield":
			// ghostfield TYPE NAME SORT [id=N]: ids are given in declaration order; a field added later
			// can carry an explicit id (>= 5000) so that the ids of all other fields - which appear as
			// numerals in every query - stay what they were
			if len(f) != 4 && !(len(f) == 5 && strings.HasPrefix(f[4], "id=")) {
				return errf("ghostfield TYPE NAME SORT [id=N]")
			}
			k := f[1] + "." + f[2]
			if _, dup := sp.GhostFields[k]; !dup {
				id := 1000 + sp.ghostAuto
				if len(f) == 5 {
					n, err := strconv.Atoi(strings.TrimPrefix(f[4], "id="))
					if err != nil || n < 5000 {
						return errf("ghostfield id must be a number >= 5000")
					}
					for _, g := range sp.GhostFields {
						if g.ID == n {
							return errf("ghostfield id %d already used by %s.%s", n, g.Type, g.Name)
						}
					}
					id = n
				} else {
					sp.ghostAuto++
				}
				sp.GhostFields[k] = &GhostField{Type: f[1], Name: f[2], Sort: f[3], ID: id}
			}
		case "const":
			// const [name] serves C04 :: expr
			c := rest
			cc := &ConstCheck{Pkg: pkgPath, File: path}
			if m := labelRe.FindStringSubmatch(c); m != nil {
				cc.Name = m[1]
				c = c[len(m[0]):]
			}
			i := strings.Index(c, "::")
			if i < 0 {
				return errf("const needs 'serves .. :: expr'")
			}
			hf := strings.Fields(c[:i])
			if len(hf) < 2 || hf[0] != "serves" {
				return errf("const needs serves")
			}
			cc.Serves = hf[1:]
			e, err := parseExpr(strings.TrimSpace(c[i+2:]))
			if err != nil {
				return errf("const: %v", err)
			}
			cc.Expr, cc.Src = e, strings.TrimSpace(c[i+2:])
			sp.ConstChecks = append(sp.ConstChecks, cc)
			cur = nil
		case "struct":
			// struct [name] serves C11 :: kind arg arg ...
			c := rest
			sc := &StructCheck{Pkg: pkgPath, File: path, Line: dl.line}
			if m := labelRe.FindStringSubmatch(c); m != nil {
				sc.Name = m[1]
				c = c[len(m[0]):]
			}
			i := strings.Index(c, "::")
			if i < 0 {
				return errf("struct needs 'serves .. :: kind args'")
			}
			hf := strings.Fields(c[:i])
			if len(hf) < 2 || hf[0] != "serves" {
				return errf("struct needs serves")
			}
			sc.Serves = hf[1:]
			af := strings.Fields(c[i+2:])
			if len(af) == 0 {
				return errf("struct needs kind")
			}
			sc.Kind, sc.Args = af[0], af[1:]
			sp.StructChecks = append(sp.StructChecks, sc)
			cur = nil
		default:
			return errf("unknown directive %q", kw)
		}
	}
	return nil
}

// modifies items: ordinary expressions, plus  x.*  and elems(s)
func parseModItem(p string) (ast.Expr, error) {
	if strings.HasSuffix(p, ".*") {
		e, err := parser.ParseExpr(p[:len(p)-2])
		if err != nil {
			return nil, err
		}
		return &ast.CallExpr{Fun: ast.NewIdent("star"), Args: []ast.Expr{e}}, nil
	}
	return parser.ParseExpr(p)
}

func (c *Contract) servesProp(p string) bool {
	for _, s := range c.Serves {
		if s == p {
			return true
		}
	}
	return false
}

// clauseServes: a labelled clause with explicit properties belongs to those;
// otherwise to every property the contract serves.
func clauseServes(c *Clause, ct *Contract, p string) bool {
	if len(c.Props) > 0 {
		for _, s := range c.Props {
			if s == p {
				return true
			}
		}
		return false
	}
	return ct.servesProp(p)
}
